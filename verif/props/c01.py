"""C01 - multi-precision integer arithmetic is exact or fails loudly.

Driver: drivers/c01_bn.c (one build per digit width x mul/div implementation x
compiler x -O level x sanitizer x BN_BIT_LEN).  Every build receives the same
seeded case stream; each observation is compared with Python integers (regions
must-succeed / may-fail / must-fail are derived per digit width from the code's
documented capacity rules) and with the observation of the same case run with a
different junk pattern in all dead storage (non-interference).  The 8-bit digit
builds additionally enumerate a small operand domain inside the driver against
native 128-bit arithmetic.
"""
import json
import math
import os
import subprocess
import sys

from verif import common
from verif.common import W as PW, R as PR, Rng
from verif.oracles import bn as O

PROP = "C01"
DRIVER = "c01_bn.c"

(OP_ADD, OP_SUB, OP_ADD_DIGIT, OP_SUB_DIGIT, OP_MULT, OP_MULT_DIGIT, OP_SQUARE, OP_EXP_DIGIT,
 OP_DIV, OP_LSHIFT, OP_RSHIFT, OP_AND, OP_OR, OP_XOR, OP_BIT_SET, OP_QUERY, OP_CMP, OP_GCD,
 OP_GCD_BIN, OP_SQRT, OP_MOD, OP_MOD_ADD, OP_MOD_SUB, OP_MOD_MULT, OP_MOD_MULT_DIGIT,
 OP_MOD_SQUARE, OP_MOD_EXP, OP_MOD_EXP_DIGIT, OP_MOD_INV, OP_MOD_DIV, OP_MOD_REDUCE,
 OP_MOD_SQRT, OP_LEGENDRE, OP_NAF, OP_JSF, OP_COMBO, OP_IMPORT, OP_EXPORT, OP_DIGIT, OP_INIT) = range(1, 41)

OPNAME = {
    OP_ADD: "bn_add", OP_SUB: "bn_sub", OP_ADD_DIGIT: "bn_add_digit", OP_SUB_DIGIT: "bn_sub_digit",
    OP_MULT: "bn_mult", OP_MULT_DIGIT: "bn_mult_digit", OP_SQUARE: "bn_square",
    OP_EXP_DIGIT: "bn_exp_digit", OP_DIV: "bn_div", OP_LSHIFT: "bn_l_shift", OP_RSHIFT: "bn_r_shift",
    OP_AND: "bn_and", OP_OR: "bn_or", OP_XOR: "bn_xor", OP_BIT_SET: "bn_bit_set", OP_QUERY: "bn_query",
    OP_CMP: "bn_cmp", OP_GCD: "bn_gcd", OP_GCD_BIN: "bn_gcd_bin", OP_SQRT: "bn_sqrt", OP_MOD: "bn_mod",
    OP_MOD_ADD: "bn_mod_add", OP_MOD_SUB: "bn_mod_sub", OP_MOD_MULT: "bn_mod_mult",
    OP_MOD_MULT_DIGIT: "bn_mod_mult_digit", OP_MOD_SQUARE: "bn_mod_square", OP_MOD_EXP: "bn_mod_exp",
    OP_MOD_EXP_DIGIT: "bn_mod_exp_digit", OP_MOD_INV: "bn_mod_inv", OP_MOD_DIV: "bn_mod_div",
    OP_MOD_REDUCE: "bn_mod_reduce", OP_MOD_SQRT: "bn_mod_sqrt", OP_LEGENDRE: "bn_mod_legendre",
    OP_NAF: "bn_calc_naf", OP_JSF: "bn_calc_jsf", OP_COMBO: "bn_combo_column_get",
    OP_IMPORT: "bn_import", OP_EXPORT: "bn_export", OP_DIGIT: "bn_digit", OP_INIT: "bn_init",
}
IMPEXP = ("be_bin", "le_bin", "be_hex", "le_hex")
INVNAME = ("bn_mod_inv", "bn_mod_inv1", "bn_mod_inv2", "bn_mod_inv_mont")
DIGITSUB = ("bn_digit_mult", "bn_digit_div", "bn_digit_gcd", "bn_digit_gcd_bin", "bn_digit_bitfuncs",
            "bn_digit_div__int_short")

F_NULL_CARRY = 1
F_NULL_SIZERET = 2
F_DIGIT_JUNK = 4      # second run fills dead digits with the digit values 1,2,3,0,all-ones (rotated by patB)
NOSLOT = 255
EINVAL, EOVERFLOW = 22, 75
EXPORT_AUTO = 1


# ---------------------------------------------------------------------------
# cases
# ---------------------------------------------------------------------------
class Case:
    __slots__ = ("op", "flags", "ops", "slots", "x", "dg", "buf", "patA", "patB", "tag")

    def __init__(self, op, ops, slots, x=(0, 0, 0), dg=0, buf=b"", flags=0, tag=""):
        self.op = op
        self.ops = list(ops)            # [(capbits, value)]
        self.slots = list(slots)
        self.x = (list(x) + [0, 0, 0])[:3]
        self.dg = dg
        self.buf = buf
        self.flags = flags
        self.patA = 2
        self.patB = 3
        self.tag = tag

    def name(self):
        if self.op == OP_IMPORT:
            return "bn_import_" + IMPEXP[self.x[0] & 3]
        if self.op == OP_EXPORT:
            return "bn_export_" + IMPEXP[self.x[0] & 3]
        if self.op == OP_MOD_INV:
            return INVNAME[min(self.x[0], 3)]
        if self.op == OP_DIGIT:
            return DIGITSUB[min(self.x[0], 5)]
        return OPNAME[self.op]

    def maxcap(self):
        return max([c for c, _ in self.ops] or [0])

    def encode(self):
        w = PW()
        w.u8(self.patA).u8(self.patB).u8(self.op).u8(self.flags).u8(len(self.ops))
        for cap, v in self.ops:
            w.u16(cap)
            w.blob(v.to_bytes((v.bit_length() + 7) // 8, "little"))
        w.u8(len(self.slots))
        for s in self.slots:
            w.u8(s)
        for v in self.x:
            w.u64(v)
        w.blob((self.dg & ((1 << 128) - 1)).to_bytes(16, "little"))
        w.blob(self.buf)
        return w.done()

    def to_json(self):
        return {"op": self.op, "name": self.name(), "flags": self.flags,
                "operands": [[c, hex(v)] for c, v in self.ops], "slots": self.slots, "x": self.x,
                "digit": hex(self.dg), "buf": self.buf.hex(), "patA": self.patA, "patB": self.patB,
                "tag": self.tag, "payload": self.encode().hex()}

    @staticmethod
    def from_json(j):
        c = Case(j["op"], [(a, int(b, 16)) for a, b in j["operands"]], j["slots"], j["x"],
                 int(j["digit"], 16), bytes.fromhex(j["buf"]), j["flags"], j.get("tag", ""))
        c.patA, c.patB = j["patA"], j["patB"]
        return c


# ---------------------------------------------------------------------------
# digit-width helpers
# ---------------------------------------------------------------------------
def nd(v, w):
    return (v.bit_length() + w - 1) // w


def cnt(cap, w):
    return (cap + w - 1) // w


def clzw(v, w):
    return nd(v, w) * w - v.bit_length()


def tight_div(n, d, cntn, w):
    """bn_div refuses (EOVERFLOW) when the normalising shift does not fit the numerator."""
    return n > d and nd(n, w) == cntn and clzw(d, w) > clzw(n, w)


class Exp:
    """what the contract promises for one case at one digit width"""
    __slots__ = ("region", "label", "outs", "verify", "rc_ok", "unsafe", "obs_note", "free", "solo")

    def __init__(self, region, outs=None, label="", verify=None, rc_ok=None, unsafe=False, obs_note=None,
                 free=()):
        self.region = region        # 'must' | 'may' | 'fail'
        self.label = label
        self.outs = outs or {}      # operand index -> value that must be there when rc == 0
        self.verify = verify        # f(obs) -> '' or reason, run when rc is acceptable
        self.rc_ok = rc_ok          # optional f(rc) -> bool overriding "rc == 0 is success"
        self.unsafe = unsafe        # arguments outside the memory-safe domain of a void function
        self.obs_note = obs_note    # non-gating remark counted as observation
        self.free = set(free)       # operands that are outputs judged by `verify`, not by value
        self.solo = False           # run in a process of its own (see work_chunk)


def _mult_region(a, b, cnta, w, L):
    if a == 0 or b == 0:
        return "must", ""
    p = a * b
    if nd(a, w) + nd(b, w) <= cnta:
        return "must", ""
    if nd(p, w) <= cnta:
        return "may", "digits(a)+digits(b)>count"
    return "fail", "overflow"


def _mult_digit_region(a, d, cnta, w):
    if a == 0 or d in (0, 1):
        return "must", ""
    p = a * d
    if nd(p, w) > cnta:
        return "fail", "overflow:n=%s" % (d if d in (2, 3) else "other")
    if d in (2, 3) or nd(a, w) < cnta:
        return "must", ""
    return "may", "digits==count"


def _mod_region(v, m, cntv, w):
    if m == 0:
        return "fail", "zero-modulus"
    if tight_div(v, m, cntv, w):
        return "may", "normalising-shift-does-not-fit"
    return "must", ""


def _worst(*regs):
    order = {"must": 0, "may": 1, "fail": 2}
    best = ("must", "")
    for r in regs:
        if order[r[0]] > order[best[0]]:
            best = r
    return best


def expect(c, w, L):
    """Contract for case c at digit width w, BN_BIT_LEN L."""
    mask = (1 << w) - 1
    V = [v for _, v in c.ops]
    C = [cnt(cap, w) for cap, _ in c.ops]
    S = c.slots
    op = c.op
    dg = c.dg & mask

    def val(k):
        return V[S[k]]

    def cn(k):
        return C[S[k]]

    def capm(k):
        return (1 << (cn(k) * w)) - 1

    if op in (OP_ADD, OP_SUB):
        a, b = val(0), val(1)
        if nd(b, w) > cn(0):
            return Exp("fail", label="operand-wider-than-destination")
        if op == OP_ADD:
            full = a + b
            cy = full >> (cn(0) * w)
        else:
            full = a - b
            cy = 1 if a < b else 0
        res = full & capm(0)
        null = bool(c.flags & F_NULL_CARRY)

        def ver(o, cy=cy, null=null):
            if null:
                return ""
            if o["carry_junk"]:
                return "carry-not-written"
            return "" if o["carry"] == cy else "wrong-carry"
        return Exp("must", {S[0]: res}, verify=ver)

    if op in (OP_ADD_DIGIT, OP_SUB_DIGIT):
        a = val(0)
        if op == OP_ADD_DIGIT:
            full = a + dg
            cy = full >> (cn(0) * w)
        else:
            full = a - dg
            cy = 1 if a < dg else 0
        null = bool(c.flags & F_NULL_CARRY)

        def ver(o, cy=cy, null=null, dg=dg):
            if null:
                return ""
            if o["carry_junk"]:
                return "" if dg == 0 else "carry-not-written"
            return "" if o["carry"] == cy else "wrong-carry"
        note = "api:%s:carry-left-unwritten-when-digit-is-zero" % c.name() if (dg == 0 and not null) else None
        return Exp("must", {S[0]: full & capm(0)}, verify=ver, obs_note=note)

    if op in (OP_MULT, OP_SQUARE):
        a = val(0)
        b = a if op == OP_SQUARE else val(1)
        reg, lab = _mult_region(a, b, cn(0), w, L)
        return Exp(reg, {S[0]: a * b}, label=lab)

    if op == OP_MULT_DIGIT:
        a = val(0)
        reg, lab = _mult_digit_region(a, dg, cn(0), w)
        return Exp(reg, {S[0]: a * dg}, label=lab)

    if op == OP_EXP_DIGIT:
        a, e = val(0), dg
        r = a ** e
        if e in (0, 1):
            return Exp("must", {S[0]: r})
        if e == 2:
            reg, lab = _mult_region(a, a, cn(0), w, L)
            return Exp(reg, {S[0]: r}, label=lab)
        if a in (0, 1):
            return Exp("must" if nd(a, w) * e <= cn(0) else "may", {S[0]: r})
        if nd(r, w) > cn(0):
            return Exp("fail", {S[0]: r}, label="overflow")
        if cn(0) >= 4 * nd(a, w) * e:
            return Exp("must", {S[0]: r})
        return Exp("may", {S[0]: r}, label="tight")

    if op == OP_DIV:
        n, d = val(0), val(1)
        i_n, i_d = S[0], S[1]
        i_r = S[2] if len(S) > 2 else NOSLOT
        if d == 0:
            return Exp("fail", label="divide-by-zero")
        q, r = divmod(n, d)
        outs = {}
        if i_r == i_n:
            outs[i_n] = 0 if i_d == i_n else r
        else:
            outs[i_n] = q
            if i_r != NOSLOT:
                outs[i_r] = r
        if i_r not in (NOSLOT, i_n) and nd(r, w) > C[i_r]:
            return Exp("fail", outs, label="remainder-wider-than-destination")
        if i_d != i_n and tight_div(n, d, C[i_n], w):
            return Exp("may", outs, label="normalising-shift-does-not-fit")
        return Exp("must", outs)

    if op == OP_LSHIFT:
        a, k = val(0), c.x[0]
        res = (a << k) & capm(0) if k < 70000 else 0
        if a == 0:
            return Exp("must", {S[0]: 0})
        used = min(cn(0), nd(a, w) + 1 + k // w)
        if k // 8 > used * w // 8:
            return Exp("must", {S[0]: res}, label="shift-beyond-capacity", unsafe=True)
        return Exp("must", {S[0]: res})

    if op == OP_RSHIFT:
        a, k = val(0), c.x[0]
        if a != 0 and k > nd(a, w) * w:
            return Exp("must", {S[0]: 0}, label="shift-beyond-digits", unsafe=True)
        return Exp("must", {S[0]: a >> k})

    if op in (OP_AND, OP_OR, OP_XOR):
        a, b = val(0), val(1)
        if op == OP_AND:
            return Exp("must", {S[0]: a & b})
        if nd(b, w) > cn(0):
            return Exp("fail", label="operand-wider-than-destination")
        return Exp("must", {S[0]: (a | b) if op == OP_OR else (a ^ b)})

    if op == OP_BIT_SET:
        a, bit, v = val(0), c.x[0], c.x[1]
        res = (a | (1 << bit)) if v else (a & ~(1 << bit))
        if bit // w >= cn(0):
            return Exp("fail" if v else "may", {S[0]: res}, label="bit-beyond-capacity")
        return Exp("must", {S[0]: res})

    if op == OP_QUERY:
        a, bit = val(0), c.x[0]
        want = {"bit": (a >> bit) & 1, "bits": a.bit_length(),
                "ctz": ((a & -a).bit_length() - 1) if a else 0,
                "clz": (cn(0) * w - a.bit_length()) if a else 0,
                "zero": int(a == 0), "one": int(a == 1), "even": int(a != 0 and a % 2 == 0),
                "odd": a & 1, "pow2": int(a != 0 and a & (a - 1) == 0)}

        def ver(o, want=want):
            for k in ("bit", "bits", "ctz", "clz", "zero", "one", "even", "odd", "pow2"):
                if o["q"][k] != want[k]:
                    return "wrong-" + ("is_bit_set" if k == "bit" else k)
            return ""
        return Exp("must", {}, verify=ver)

    if op == OP_CMP:
        a, b = val(0), val(1)
        sg = (a > b) - (a < b)

        def ver(o, sg=sg):
            got = o["s0"] if o["s0"] < (1 << 63) else o["s0"] - (1 << 64)
            if (got > 0) - (got < 0) != sg:
                return "wrong-sign"
            return "" if o["s1"] == int(sg == 0) else "wrong-is-equal"
        return Exp("must", {}, verify=ver)

    if op in (OP_GCD, OP_GCD_BIN):
        a, b = val(1), val(2)
        g = math.gcd(a, b)
        i_r = S[0]
        if a == 0 or b == 0 or a == b:
            src = b if a == 0 else a
            if nd(src, w) > C[i_r]:
                return Exp("fail", label="result-wider-than-destination")
            return Exp("must", {i_r: g})
        if op == OP_GCD_BIN or (nd(a, w) < cn(1) and nd(b, w) < cn(2)):
            return Exp("must", {i_r: g})
        return Exp("may", {i_r: g}, label="operand-at-full-capacity")

    if op == OP_SQRT:
        a = val(0)
        r = math.isqrt(a)
        if a == 0:
            return Exp("must", {S[0]: 0}, label="zero")
        par = "odd-bit-length" if a.bit_length() % 2 else "even-bit-length"
        if a.bit_length() >= cn(0) * w - 1:
            return Exp("may", {S[0]: r}, label=par)
        return Exp("must", {S[0]: r}, label=par)

    if op == OP_MOD:
        a, m = val(0), val(1)
        reg, lab = _mod_region(a, m, cn(0), w)
        return Exp(reg, {S[0]: a % m if m else 0}, label=lab)

    if op == OP_MOD_ADD:
        a, n, m = val(0), val(1), val(2)
        res = (a + n) % m
        if nd(n, w) > cn(0):
            return Exp("fail", label="operand-wider-than-destination")
        if (a + n) >> (cn(0) * w):
            return Exp("fail", {S[0]: res}, label="overflow:intermediate-sum")
        return Exp("must", {S[0]: res})

    if op == OP_MOD_SUB:
        a, n, m = val(0), val(1), val(2)
        res = (a - n) % m
        if a < n and nd(m, w) > cn(0):
            return Exp("may", {S[0]: res}, label="modulus-wider-than-destination")
        if nd(n, w) > cn(0):
            return Exp("may", {S[0]: res}, label="operand-wider-than-destination")
        return Exp("must", {S[0]: res})

    if op in (OP_MOD_MULT, OP_MOD_SQUARE, OP_MOD_MULT_DIGIT):
        a = val(0)
        if op == OP_MOD_MULT:
            b, m = val(1), val(2)
            r1 = _mult_region(a, b, cn(0), w, L)
        elif op == OP_MOD_SQUARE:
            b, m = a, val(1)
            r1 = _mult_region(a, b, cn(0), w, L)
        else:
            b, m = dg, val(1)
            r1 = _mult_digit_region(a, b, cn(0), w)
        r2 = _mod_region(a * b, m, cn(0), w)
        reg, lab = _worst(r1, r2)
        return Exp(reg, {S[0]: (a * b) % m if m else 0}, label=lab)

    if op in (OP_MOD_EXP, OP_MOD_EXP_DIGIT):
        a = val(0)
        if op == OP_MOD_EXP:
            e, m, im = val(1), val(2), S[2]
        else:
            e, m, im = c.x[0], val(1), S[1]
        res = pow(a, e, m)
        if cn(0) < C[im]:
            return Exp("may", {S[0]: res}, label="destination-narrower-than-modulus")
        if cn(0) >= 2 * nd(m, w) + 1:
            return Exp("must", {S[0]: res})
        return Exp("may", {S[0]: res}, label="tight")

    if op == OP_MOD_INV:
        a, m = val(0), val(1)
        if a == 0 or a >= m:
            return Exp("fail", label="argument-outside-domain")
        inv = pow(a, -1, m)
        if (4 + max(nd(a, w), nd(m, w))) * w > L:
            return Exp("may", {S[0]: inv}, label="temporaries-exceed-BN_BIT_LEN")
        if nd(inv, w) > cn(0):
            return Exp("fail", {S[0]: inv}, label="result-wider-than-destination")
        if c.x[0] == 2 and (1 + 2 * max(nd(a, w), nd(m, w))) * w > L:
            # bn_mod_inv2 multiplies the quotient by a cofactor in place: 2*digits+1 digits of temporary
            return Exp("may", {S[0]: inv}, label="temporaries-exceed-BN_BIT_LEN")
        if c.x[0] == 2 and cn(0) < 2 * nd(m, w) + 1:
            return Exp("may", {S[0]: inv}, label="tight")
        return Exp("must", {S[0]: inv})

    if op == OP_MOD_DIV:
        a, d, m = val(0), val(1), val(2)
        inv = pow(d, -1, m)
        res = a * inv % m
        if (4 + max(nd(d, w), nd(m, w))) * w > L:
            return Exp("may", {S[0]: res}, label="temporaries-exceed-BN_BIT_LEN")
        if cn(1) < nd(m, w):
            return Exp("may", {S[0]: res}, label="tight")
        r1 = _mult_region(a, inv, cn(0), w, L)
        r2 = _mod_region(a * inv, m, cn(0), w)
        reg, lab = _worst(r1, r2)
        return Exp(reg, {S[0]: res}, label=lab)

    if op == OP_MOD_REDUCE:
        a, m = val(0), val(1)
        if a < m:
            return Exp("must", {S[0]: a})
        reg, lab = _mod_region(a, m - 1, cn(0), w)
        return Exp(reg, {S[0]: a % (m - 1) + 1}, label=lab)

    if op == OP_LEGENDRE:
        a, m = val(0), val(1)
        if m % 2 == 0:
            return Exp("fail", rc_ok=lambda rc: rc == EINVAL, label="even-modulus")
        sym = O.legendre(a, m)
        ample = cn(0) >= 2 * nd(m, w) + 1 and cn(0) >= cn(1) and not tight_div(a, m, cn(0), w)
        if ample:
            return Exp("must", rc_ok=lambda rc, sym=sym: rc == sym, label="symbol")
        return Exp("may", rc_ok=lambda rc, sym=sym: rc in (sym, EINVAL, EOVERFLOW), label="tight")

    if op == OP_MOD_SQRT:
        a, m = val(0), val(1)
        if m % 2 == 0:
            return Exp("fail", label="even-modulus")
        ar = a % m
        root = O.tonelli(ar, m)
        if root is None:
            return Exp("fail", label="non-residue")
        cls = "3mod4" if m % 4 == 3 else ("5mod8" if m % 8 == 5 else "1mod8")

        def ver(o, ar=ar, m=m, i=S[0]):
            r = o["bn"][i]["value"]
            if r >= m:
                return "root-not-reduced"
            return "" if r * r % m == ar else "not-a-root"
        ample = (cn(0) >= 2 * nd(m, w) + 1 and cn(0) >= cn(1) and not tight_div(a, m, cn(0), w))
        if cls == "1mod8" and ar > 1:
            if (1 + 2 * max(nd(ar, w), nd(m, w))) * w > L or (4 + nd(m, w)) * w > L:
                ample = False
        if cls == "1mod8" and ar > 1 and ample:
            # root causes seen on the pinned tree get their own label (stable keys):
            # the temporaries are sized from digit counts, bn_mod_exp wants count >= m->count
            b_, tm_, tries = ar, m, ar.bit_length()
            while True:
                tm_ >>= 1
                b_ ^= tm_
                if O.legendre(b_, m) == -1:
                    break
                tries -= 1
                if tries == 0:
                    cls += ":nonresidue-search-exhausted"
                    break
            if tries and cn(1) > 1 + 2 * max(nd(ar, w), nd(m, w)):
                cls += ":modulus-capacity-exceeds-temporaries"
        return Exp("must" if ample else "may", verify=ver, label=cls, free=(S[0],))

    if op == OP_NAF:
        a, wnd, size = val(0), c.x[0], c.x[1]
        if wnd < 2:
            return Exp("fail", label="window<2")
        ref = O.ref_naf(a, wnd)
        if size < len(ref):
            return Exp("fail", label="array-too-small")

        def ver(o, a=a, wnd=wnd, size=size):
            if c.flags & F_NULL_SIZERET:
                n = size
                digs = [x - 256 if x > 127 else x for x in o["obuf"][:n]]
                while digs and digs[-1] == 0:
                    digs.pop()
            else:
                if o["szret_junk"]:
                    return "count-not-written"
                n = o["szret"]
                if n > size:
                    return "count-exceeds-array"
                digs = [x - 256 if x > 127 else x for x in o["obuf"][:n]]
                if any(o["obuf"][n:]):
                    return "tail-not-zeroed"
            return "invalid-recoding" if O.check_naf(digs, wnd, a) else ""
        if size < a.bit_length() + 1:
            return Exp("may", verify=ver, label="array<bits+1")
        if a + (1 << (wnd - 1)) >= (1 << (cn(0) * w)):
            return Exp("may", verify=ver, label="value-near-capacity")
        return Exp("must", verify=ver)

    if op == OP_JSF:
        a, b, size = val(0), val(1), c.x[0]
        off = max(a.bit_length(), b.bit_length()) + 1

        def ver(o, a=a, b=b, size=size, off=off):
            if o["szret2_junk"]:
                return "offset-not-written"
            of = o["szret2"]
            if c.flags & F_NULL_SIZERET:
                n = of
            else:
                if o["szret_junk"]:
                    return "count-not-written"
                n = o["szret"]
            if of + n > size or n > of:
                return "count-or-offset-exceeds-array"
            sg = [x - 256 if x > 127 else x for x in o["obuf"]]
            r0, r1 = sg[:n], sg[of:of + n]
            if c.flags & F_NULL_SIZERET:
                # length unknown: strip common high zero columns (untouched bytes are junk, so
                # only positions written in both runs are trusted)
                while r0 and r1 and r0[-1] == 0 and r1[-1] == 0:
                    r0.pop()
                    r1.pop()
            return "invalid-recoding" if O.check_jsf(r0, r1, a, b) else ""
        if size < 2 * off:
            return Exp("may", verify=ver, label="array<2*(bits+1)")
        e = Exp("must", verify=ver, label="zero-operand" if (a == 0 or b == 0) else "")
        # on the pinned tree a zero scalar makes bn_calc_jsf read an uninitialised digit: it may overrun
        # the array or never terminate.  Isolated so that it cannot poison or starve other cases.
        e.solo = (a == 0 or b == 0)
        return e

    if op == OP_COMBO:
        a, off, wb, wc = val(0), c.x[0], c.x[1], c.x[2]
        res = 0
        for i in range(wb):
            res = (res << 1) | ((a >> (off - i * wc)) & 1)

        def ver(o, res=res):
            return "" if o["ex_digit"][0] == res else "wrong-column"
        return Exp("must", verify=ver)

    if op == OP_INIT:
        bits = c.x[0]
        maxd = L // w                      # BN_MAX_DIGITS: the array size, BN_BIT_LEN / digit width rounded DOWN
        need = (bits + w - 1) // w

        def ver_fail(o):
            i = o.get("init")
            if i and not i["behind_intact"]:
                return "no-error-and-wrote-behind-the-object"
            return "no-error"
        if bits == 0:
            return Exp("fail", verify=ver_fail, label="zero-bits")
        if bits > L:
            return Exp("fail", verify=ver_fail, label="beyond-BN_BIT_LEN")
        if need > maxd:
            return Exp("fail", verify=ver_fail, label="capacity-exceeds-array")
        want = (1 << bits) & ((1 << (need * w)) - 1)
        cy = 1 if bits == need * w else 0
        null = bool(c.flags & F_NULL_CARRY)

        def ver(o, need=need, want=want, cy=cy, maxd=maxd, null=null):
            i = o.get("init")
            if not i:
                return "no-observation"
            if i["maxd"] != maxd:
                return "harness-array-size-mismatch"
            if i["count"] != need or i["digits0"] != 0:
                return "wrong-count-or-digits"
            if not i["behind_intact"]:
                return "wrote-behind-the-object"
            if i["r1"] != 0 or i["r2"] != 0:
                return "error-at-full-capacity"
            if i["value"] != want or i["digits"] != nd(want, w):
                return "wrong-value-at-full-capacity"
            if not null and (o["carry_junk"] or o["carry"] != cy):
                return "wrong-carry"
            return ""
        return Exp("must", verify=ver, label="top-partial-digit" if L % w and need == maxd else "")

    if op == OP_IMPORT:
        return _expect_import(c, w, L, V, C, S)
    if op == OP_EXPORT:
        return _expect_export(c, w, L, V, C, S)
    if op == OP_DIGIT:
        return _expect_digit(c, w)
    raise ValueError("unknown op %r" % op)


HEXCH = b"0123456789abcdefABCDEF"


def _expect_import(c, w, L, V, C, S):
    kind = c.x[0] & 3
    buf = c.buf
    capb = C[S[0]] * w // 8
    prior = V[S[0]]
    note = None
    if kind < 2:
        if len(buf) == 0:
            return Exp("may", {S[0]: 0}, label="empty-buffer")
        v = int.from_bytes(buf, "big" if kind == 0 else "little")
        if (v.bit_length() + 7) // 8 > capb:
            return Exp("fail", label="value-wider-than-capacity")
        if len(buf) > capb:
            return Exp("may", {S[0]: v}, label="buffer-longer-than-capacity")
        lab = ""
        if nd(prior, w) > (len(buf) * 8 + w - 1) // w:
            lab = "destination-held-wider-value"
        return Exp("must", {S[0]: v}, label=lab)
    nib = [x for x in buf if x in HEXCH]
    if len(buf) == 0:
        return Exp("may", {S[0]: 0}, label="empty-buffer")
    txt = bytes(nib).decode()
    if kind == 2:
        if len(txt) % 2:
            txt = txt[1:]
            note = "api:bn_import_be_hex:odd-leading-nibble-dropped"
        v = int(txt, 16) if txt else 0
    else:
        if len(txt) % 2:
            txt = txt[:-1]
            note = "api:bn_import_le_hex:odd-trailing-nibble-dropped"
        v = int.from_bytes(bytes.fromhex(txt), "little")
    nbytes = len(txt) // 2
    if (v.bit_length() + 7) // 8 > capb:
        return Exp("fail", label="value-wider-than-capacity")
    if nbytes > capb or len(buf) // 2 > capb:
        return Exp("may", {S[0]: v}, label="text-longer-than-capacity")
    return Exp("must", {S[0]: v}, obs_note=note)


def _expect_export(c, w, L, V, C, S):
    kind, fl, size = c.x[0] & 3, c.x[1], c.x[2]
    a = V[S[0]]
    auto = bool(fl & EXPORT_AUTO)
    sig = (a.bit_length() + 7) // 8
    ndb = nd(a, w) * w // 8
    nullret = bool(c.flags & F_NULL_SIZERET)
    hexk = kind >= 2
    unit = 2 if hexk else 1
    if size < unit:
        return Exp("fail", label="buffer-smaller-than-one-byte")
    if sig * unit > size:
        return Exp("fail", label="buffer-too-small")
    region, lab = "must", ""
    if kind == 3 and a and 2 * ndb > size:
        region, lab = "may", "buffer-smaller-than-whole-digits"

    def ver(o, a=a, kind=kind, auto=auto, size=size, nullret=nullret, hexk=hexk):
        ob, touched = o["obuf"], o["obuf_touched"]
        if nullret:
            if auto:
                # written length unknown to the caller: take the touched prefix
                n = 0
                while n < size and touched[n]:
                    n += 1
                if hexk and n and ob[n - 1] == 0:
                    n -= 1
            else:
                n = size & ~1 if hexk else size
        else:
            if o["szret_junk"]:
                return "size-not-written"
            n = o["szret"]
            if n > size:
                return "reported-size-exceeds-buffer"
            if not auto and n != (size & ~1 if hexk else size):
                return "reported-size-not-buffer-size"
        data = bytes(ob[:n])
        if hexk:
            if any(ch not in b"0123456789abcdef" for ch in data) or n % 2:
                return "not-hex-text"
            if n < size and ob[n] != 0:
                return "missing-terminator"
            end = n + 1
            if kind == 2:
                v = int(data.decode(), 16) if data else 0
            else:
                v = int.from_bytes(bytes.fromhex(data.decode()), "little")
        else:
            end = n
            v = int.from_bytes(data, "big" if kind == 0 else "little")
        if v != a:
            return "wrong-bytes"
        if any(touched[end:]):
            return "wrote-beyond-reported-size"
        return ""
    return Exp(region, verify=ver, label=lab)


def _expect_digit(c, w):
    mask = (1 << w) - 1
    sub = c.x[0]
    b = c.buf + bytes(48)
    a0 = int.from_bytes(b[0:16], "little") & mask
    a1 = int.from_bytes(b[16:32], "little") & mask
    a2 = int.from_bytes(b[32:48], "little") & mask
    if sub == 0:
        p = a0 * a1
        want = [p & mask, p >> w]
    elif sub == 1:
        if a2 == 0:
            return Exp("fail", label="divide-by-zero")
        n = (a1 << w) | a0
        q, r = divmod(n, a2)
        want = [q & mask, q >> w, r & mask, r >> w]
    elif sub in (2, 3):
        want = [math.gcd(a0, a1)]
    elif sub == 4:
        want = None
        q4 = [bin(a0).count("1"), ((a0 & -a0).bit_length() - 1) if a0 else w,
              w - a0.bit_length(), (a0 & -a0).bit_length()]

        def ver4(o, q4=q4):
            return "" if o["ex_u64"][:4] == q4 else "wrong-bit-function"
        return Exp("must", verify=ver4)
    else:
        if a2 == 0:
            return Exp("fail", label="divide-by-zero")
        n = (a1 << w) | a0
        want = [(n // a2) & mask]

    def ver(o, want=want):
        got = o["ex_digit"][:len(want)]
        if got == want:
            return ""
        for i, (g, x) in enumerate(zip(got, want)):
            if g != x:
                return "wrong-output-%d" % i
        return "short-output"
    return Exp("must", verify=ver)


# ---------------------------------------------------------------------------
# observations
# ---------------------------------------------------------------------------
def parse_run(blob, c, w):
    r = PR(blob)
    o = {"rc": r.i32()}
    if o["rc"] <= -1000:
        o["setup_error"] = True
        return o
    n = r.u8()
    bns = []
    for _ in range(n):
        count, digits, fl = r.u32(), r.u32(), r.u8()
        raw = r.blob()
        bns.append({"count": count, "digits": digits, "canary": fl, "value": int.from_bytes(raw, "little"),
                    "top_zero": digits > 0 and len(raw) >= w // 8 and not any(raw[-(w // 8):])})
    o["bn"] = bns
    o["carry_junk"] = r.u8()
    o["carry"] = int.from_bytes(r.b[r.o:r.o + 16], "little")
    r.o += 16
    o["szret_junk"] = r.u8()
    o["szret"] = r.u64()
    o["szret2_junk"] = r.u8()
    o["szret2"] = r.u64()
    o["s0"] = r.u64()
    o["s1"] = r.u64()
    o["obuf"] = list(r.blob())
    o["pat"] = r.u8()
    ex = r.blob()
    o["ex"] = ex
    if c.op == OP_QUERY and len(ex) >= 30:
        e = PR(ex)
        o["q"] = {"bit": e.u8(), "bits": e.u64(), "ctz": e.u64(), "clz": e.u64(), "zero": e.u8(),
                  "one": e.u8(), "even": e.u8(), "odd": e.u8(), "pow2": e.u8()}
    if c.op == OP_INIT and len(ex) >= 41:
        e = PR(ex)
        o["init"] = {"maxd": e.u64(), "count": e.u64(), "digits0": e.u64(), "r1": e.i32(), "r2": e.i32(),
                     "digits": e.u64(), "behind_intact": e.u8(), "value": int.from_bytes(e.blob(), "little")}
    if c.op in (OP_COMBO, OP_DIGIT):
        o["ex_digit"] = [int.from_bytes(ex[i:i + 16], "little") for i in range(0, len(ex) - 15, 16)]
        o["ex_u64"] = [int.from_bytes(ex[i:i + 8], "little") for i in range(0, len(ex) - 7, 8)]
    return o


def compare_runs(a, b, c):
    """non-interference: which observable differs between the two junk patterns ('' if none).
    Also derives the touched-mask of the output buffer and stores it in a."""
    if a["rc"] != b["rc"]:
        return "return-code"
    if a.get("setup_error"):
        return ""
    oa, ob_ = a["obuf"], b["obuf"]
    touched = [not (x == a["pat"] and y == b["pat"]) for x, y in zip(oa, ob_)]
    a["obuf_touched"] = touched
    special = c.op in (OP_LEGENDRE,)
    if a["rc"] != 0 and not special:
        return ""
    for i, (x, y) in enumerate(zip(a["bn"], b["bn"])):
        if (x["count"], x["digits"], x["value"]) != (y["count"], y["digits"], y["value"]):
            return "operand%d" % i
    if not (a["carry_junk"] and b["carry_junk"]):
        ca = a["carry"] if not a["carry_junk"] else b["carry"]
        cb = b["carry"] if not b["carry_junk"] else a["carry"]
        if ca != cb:
            return "carry"
        # normalise: a value that coincides with the junk in one run is still a written value
        a["carry"], a["carry_junk"] = ca, 0
    for k in ("szret", "szret2"):
        if not (a[k + "_junk"] and b[k + "_junk"]):
            if a[k] != b[k]:
                return k
            a[k + "_junk"] = 0
    if a["s0"] != b["s0"] or a["s1"] != b["s1"]:
        return "scalar"
    for t, x, y in zip(touched, oa, ob_):
        if t and x != y:
            return "output-buffer"
    if a["ex"] != b["ex"]:
        if "q" in a and "q" in b:
            for k in a["q"]:
                if a["q"][k] != b["q"][k]:
                    return "is_bit_set" if k == "bit" else k
        return "result"
    return ""


def judge(c, w, L, exp, o):
    """returns list of (kind, detail) problems for a parsed first-run observation"""
    probs = []
    rc = o["rc"]
    lab = exp.label
    if exp.rc_ok is not None:
        if not exp.rc_ok(rc):
            probs.append(("wrong-return-value", lab))
        return probs
    if rc != 0:
        if exp.region == "must":
            probs.append(("error-in-domain", lab))
        return probs
    # success reported
    if exp.region == "fail" and not exp.outs and exp.verify is None:
        probs.append(("no-error", lab))
        return probs
    bad = False
    for i, b in enumerate(o["bn"]):
        if b["digits"] > b["count"] or b["count"] * w > L:
            probs.append(("invariant", "digits>count"))
            bad = True
            continue
        if b["top_zero"]:
            probs.append(("invariant", "top-digit-zero"))
            bad = True
        if b["canary"]:
            probs.append(("wrote-above-capacity", ""))
        if i in exp.outs:
            if b["value"] != exp.outs[i]:
                bad = True
                if exp.region == "must":
                    probs.append(("wrong-value", lab))
                else:
                    probs.append(("silent-overflow" if "overflow" in lab or exp.region == "fail" else "wrong-value", lab))
        elif i not in exp.free:
            cap0, v0 = c.ops[i]
            if b["value"] != v0:
                probs.append(("operand-changed", "operand%d" % i))
    if exp.verify is not None and not bad:
        why = exp.verify(o)
        if why:
            if exp.region == "must":
                probs.append((why, lab))
            else:
                probs.append((why, lab or exp.region))
    if exp.region == "fail" and not probs:
        # reported success although the contract demands an error, yet everything checkable
        # came out right (e.g. value happened to fit): only a problem if nothing could be right
        if not exp.outs and exp.verify is not None:
            pass
    return probs


# ---------------------------------------------------------------------------
# case generator
# ---------------------------------------------------------------------------
MAXCAP = 2048


def _roundup(x, g):
    return max(g, (x + g - 1) // g * g)


def pick_cap(rng, v, limit=MAXCAP, extra_bits=0):
    """capacity in bits for a destination that currently holds v"""
    need = max(v.bit_length() + extra_bits, 1)
    t = rng.below(10)
    if t == 0:
        cap = _roundup(need, 8)                       # tight to the byte (one 8-bit digit granule)
    elif t <= 3:
        cap = _roundup(need, 128)                     # tight to the 128-bit granule
    elif t <= 5:
        cap = _roundup(need, 128) + 128               # one spare 128-bit digit
    elif t <= 7:
        cap = _roundup(2 * need, 128) + 128           # room for a product plus a spare digit
    else:
        cap = _roundup(2 * need, 128) + 128 * rng.range(2, 4)
    cap = min(cap, limit)
    if cap < need:
        cap = min(_roundup(need, 8), MAXCAP)
    return cap


def size_class(rng):
    t = rng.below(20)
    if t < 11:
        return rng.choice((64, 120, 128, 128, 192, 256, 256))
    if t < 17:
        return rng.choice((320, 384, 521, 640))
    return rng.choice((1024, 1500, 2048))


OP_WEIGHTS = [
    (OP_ADD, 8), (OP_SUB, 8), (OP_ADD_DIGIT, 3), (OP_SUB_DIGIT, 3), (OP_MULT, 9), (OP_MULT_DIGIT, 4),
    (OP_SQUARE, 3), (OP_EXP_DIGIT, 2), (OP_DIV, 14), (OP_LSHIFT, 5), (OP_RSHIFT, 5), (OP_AND, 2),
    (OP_OR, 2), (OP_XOR, 2), (OP_BIT_SET, 3), (OP_QUERY, 3), (OP_CMP, 3), (OP_GCD, 3), (OP_GCD_BIN, 2),
    (OP_SQRT, 2), (OP_MOD, 4), (OP_MOD_ADD, 3), (OP_MOD_SUB, 3), (OP_MOD_MULT, 4), (OP_MOD_MULT_DIGIT, 2),
    (OP_MOD_SQUARE, 2), (OP_MOD_EXP, 2), (OP_MOD_EXP_DIGIT, 2), (OP_MOD_INV, 3), (OP_MOD_DIV, 1),
    (OP_MOD_REDUCE, 2), (OP_MOD_SQRT, 2), (OP_LEGENDRE, 1), (OP_NAF, 3), (OP_JSF, 3), (OP_COMBO, 2),
    (OP_IMPORT, 8), (OP_EXPORT, 10), (OP_DIGIT, 6),
]
_WTOTAL = sum(wt for _, wt in OP_WEIGHTS)


def pick_op(rng):
    t = rng.below(_WTOTAL)
    for op, wt in OP_WEIGHTS:
        if t < wt:
            return op
        t -= wt
    return OP_ADD


def make_primes(seed_parts):
    """pool of odd primes by residue class and size (plus well-known curve primes)"""
    rng = Rng(*seed_parts)
    pool = {"3mod4": [], "5mod8": [], "1mod8": [], "2adic": []}
    for cls in pool:
        for bits in (8, 13, 16, 24, 31, 32, 33, 61, 64, 65, 96, 127, 128, 160, 192, 255, 256):
            pool[cls].append(O.gen_prime(rng, bits, cls))
    for p in O.CURVE_PRIMES:
        cls = "3mod4" if p % 4 == 3 else ("5mod8" if p % 8 == 5 else "1mod8")
        pool[cls].append(p)
    pool["small"] = [3, 5, 7, 11, 13, 17, 97, 113, 193, 251, 257, 65537]
    return pool


def pick_prime(rng, pool, maxbits, cls=None):
    if cls is None:
        cls = rng.choice(("3mod4", "5mod8", "1mod8", "2adic", "small"))
    cand = [p for p in pool[cls] if p.bit_length() <= maxbits] or pool["small"]
    return rng.choice(cand)


def pick_modulus(rng, pool, maxbits):
    """odd prime mostly; sometimes arbitrary (odd or even) modulus >= 2"""
    if rng.chance(3, 4):
        return pick_prime(rng, pool, maxbits)
    m = O.gen_divisor(rng, maxbits)
    return m if m >= 2 else 3


def gen_case(rng, pool):
    op = pick_op(rng)
    mb = size_class(rng)
    gv = O.gen_value
    flags = 0
    x = [0, 0, 0]
    dg = 0
    buf = b""
    tag = ""
    if op in (OP_ADD, OP_SUB, OP_AND, OP_OR, OP_XOR, OP_CMP):
        a, b = gv(rng, mb), gv(rng, rng.choice((mb, mb, max(8, mb // 2), 16)))
        if op in (OP_ADD, OP_SUB) and rng.chance(1, 4):      # long carry / borrow chains
            k = rng.range(1, mb)
            # k == 1 makes 2^k - 1 - {0,1,2} negative: clamp before a is reused as b
            a = max((1 << k) - 1 - (rng.below(3) if rng.chance(1, 2) else 0), 0)
            b = rng.choice((1, 2, (1 << rng.below(k)) | 1, a))
            if op == OP_SUB and rng.chance(1, 2):
                a, b = (1 << k), b
        if op == OP_CMP and rng.chance(1, 3):
            b = a ^ (1 << rng.below(max(1, a.bit_length()))) if rng.chance(1, 2) else a
        ca = pick_cap(rng, max(a, b) if rng.chance(3, 4) else a)
        cb = pick_cap(rng, b)
        ops = [(ca, a), (cb, b)]
        slots = [0, 1]
        if rng.chance(1, 8):
            slots = [0, 0]
            tag = "alias:x,x"
        if op in (OP_ADD, OP_SUB) and rng.chance(1, 6):
            flags |= F_NULL_CARRY
    elif op in (OP_ADD_DIGIT, OP_SUB_DIGIT):
        a = gv(rng, mb)
        if rng.chance(1, 3):
            k = rng.range(1, mb)
            a = (1 << k) - 1 if op == OP_ADD_DIGIT else (1 << k)
        dg = rng.choice((0, 1, 2, 0xff, 0x80, rng.bits(8), rng.bits(128), (1 << 128) - 1, rng.bits(64)))
        ops = [(pick_cap(rng, a), a)]
        slots = [0]
        if rng.chance(1, 6):
            flags |= F_NULL_CARRY
    elif op in (OP_MULT, OP_SQUARE):
        a = gv(rng, mb)
        b = gv(rng, rng.choice((mb, max(8, mb // 2), 8, 64)))
        prod_bits = a.bit_length() + (b.bit_length() if op == OP_MULT else a.bit_length())
        while prod_bits > MAXCAP and rng.chance(9, 10):
            a >>= 64
            b >>= 32
            prod_bits = a.bit_length() + (b.bit_length() if op == OP_MULT else a.bit_length())
        t = rng.below(8)
        if t == 0:
            ca = pick_cap(rng, a)
        elif t <= 2:
            ca = min(MAXCAP, _roundup(max(prod_bits, 1), rng.choice((8, 128))))
        else:
            ca = min(MAXCAP, _roundup(max(prod_bits, 1), 128) + 128 * rng.range(1, 2))
        ca = max(ca, _roundup(max(a.bit_length(), 1), 8))
        ops = [(ca, a)]
        slots = [0]
        if op == OP_MULT:
            ops.append((pick_cap(rng, b), b))
            slots = [0, 1]
            if rng.chance(1, 10):
                slots = [0, 0]
                tag = "alias:x,x"
    elif op == OP_MULT_DIGIT:
        a = gv(rng, mb)
        dg = rng.choice((0, 1, 2, 3, 4, 5, 0x80, 0xff, rng.bits(8), rng.bits(16), rng.bits(128), (1 << 128) - 1,
                         1 << rng.below(128)))
        if rng.chance(1, 3):
            dg = rng.choice((2, 3))
        ops = [(pick_cap(rng, a, extra_bits=rng.choice((0, 0, 8, 128))), a)]
        slots = [0]
    elif op == OP_EXP_DIGIT:
        a = gv(rng, rng.choice((8, 16, 64, 130)))
        dg = rng.choice((0, 1, 2, 3, 4, 5, 7, 8, 13))
        need = max(1, a.bit_length() * max(dg, 1))
        ca = min(MAXCAP, _roundup(need, 128) * rng.choice((1, 1, 2, 8)))
        ca = max(ca, _roundup(max(a.bit_length(), 1), 8))
        ops = [(ca, a)]
        slots = [0]
    elif op in (OP_DIV, OP_MOD):
        t = rng.below(10)
        if t <= 2:
            n, d = O.gen_knuth_pair(rng, mb)
            tag = "knuth"
        elif t <= 5:
            n, d = gv(rng, mb), O.gen_divisor(rng, rng.choice((mb, max(8, mb // 2), max(8, mb // 3), 8, 64)))
        elif t == 6:
            d = O.gen_divisor(rng, max(8, mb // 2))
            n = d * gv(rng, max(1, mb - d.bit_length())) + rng.choice((0, 1, d - 1))
            n %= 1 << mb
        elif t == 7:
            n = gv(rng, mb)
            d = rng.choice((n, n + 1, max(1, n - 1), 1, 2, 0))
        else:
            n, d = (1 << mb) - 1 - rng.below(3), O.gen_divisor(rng, mb)
        if op == OP_DIV and rng.chance(1, 40):
            d = 0
        if op == OP_MOD and d == 0 and rng.chance(9, 10):
            d = 1
        cn_ = pick_cap(rng, n)
        cd = pick_cap(rng, d)
        ops = [(cn_, n), (cd, d)]
        if op == OP_MOD:
            slots = [0, 1]
        else:
            rem = n % d if d else 0
            am = rng.below(10)
            if am <= 4:
                rcap = pick_cap(rng, d if rng.chance(3, 4) else rem)
                ops.append((rcap, gv(rng, min(rcap, 64))))
                slots = [0, 1, 2]
            elif am <= 6:
                slots = [0, 1, 0]
                tag += " alias:a,d,a"
            elif am == 7:
                slots = [0, 1, NOSLOT]
                tag += " rem=NULL"
            else:
                rc2 = pick_cap(rng, d)
                ops.append((rc2, gv(rng, min(rc2, 32))))
                slots = [0, 0, 2]
                tag += " alias:a,a,r"
    elif op in (OP_LSHIFT, OP_RSHIFT):
        a = gv(rng, mb)
        ca = pick_cap(rng, a)
        t = rng.below(12)
        lim = a.bit_length() if op == OP_RSHIFT else ca
        if t <= 3:
            k = rng.below(max(1, lim))
        elif t <= 6:
            k = min(8 * rng.below(max(1, lim // 8 + 1)), max(0, lim - (0 if op == OP_LSHIFT else 1)))
        elif t <= 8:
            k = rng.choice((0, 1, 7, 8, 9, 15, 16, 17, 31, 32, 33, 63, 64, 65, 127, 128, 129))
            k = min(k, max(0, lim - 1))
        elif t == 9:
            k = max(0, lim - rng.below(3))
        elif t == 10:
            k = rng.below(max(1, lim))
        else:
            k = lim + rng.choice((0, 1, 7, 8, 9, 64, 128, 1000))   # at / beyond the operand or capacity
        ops = [(ca, a)]
        slots = [0]
        x[0] = k
    elif op == OP_BIT_SET:
        a = gv(rng, mb)
        ca = pick_cap(rng, a)
        bit = rng.below(ca) if rng.chance(9, 10) else ca + rng.below(300)
        if rng.chance(1, 4) and a:
            bit = a.bit_length() - 1
        ops, slots = [(ca, a)], [0]
        x[0], x[1] = bit, rng.below(2)
    elif op == OP_QUERY:
        a = gv(rng, mb)
        ca = pick_cap(rng, a)
        ops, slots = [(ca, a)], [0]
        x[0] = rng.below(ca + 64)
    elif op in (OP_GCD, OP_GCD_BIN):
        mb = min(mb, 640)
        g = gv(rng, max(1, mb // 3)) or 1
        a, b = g * gv(rng, max(1, mb - g.bit_length())), g * gv(rng, max(1, mb - g.bit_length()))
        if rng.chance(1, 8):
            a, b = rng.choice(((0, b), (a, 0), (a, a), (0, 0), (1, b), (a, 1)))
        if rng.chance(1, 6):
            a, b = b << rng.below(64), a << rng.below(64)
            a %= 1 << mb
            b %= 1 << mb
        extra = rng.choice((0, 128, 128, 128))
        ca, cb = pick_cap(rng, a, extra_bits=extra), pick_cap(rng, b, extra_bits=extra)
        if rng.chance(1, 5):
            ops, slots = [(ca, a), (cb, b)], [0, 0, 1]
            tag = "alias:r,r,b"
        else:
            cr = pick_cap(rng, max(a, b))
            ops, slots = [(cr, gv(rng, min(cr, 64))), (ca, a), (cb, b)], [0, 1, 2]
    elif op == OP_SQRT:
        mb = min(mb, 640)
        a = gv(rng, mb)
        if rng.chance(1, 3):
            r = gv(rng, max(1, mb // 2))
            a = (r * r + rng.choice((0, -1, 1, 2 * r))) % (1 << mb)
            a = max(a, 0)
        ops, slots = [(pick_cap(rng, a, extra_bits=rng.choice((0, 2, 128))), a)], [0]
    elif op in (OP_MOD_ADD, OP_MOD_SUB, OP_MOD_MULT, OP_MOD_SQUARE, OP_MOD_MULT_DIGIT, OP_MOD_REDUCE):
        mb = min(mb, 1024)
        m = pick_modulus(rng, pool, mb)
        a = rng.choice((0, 1, m - 1, m - 2, m // 2, rng.below(m), rng.below(m)))
        n = rng.choice((0, 1, m - 1, m - 2, m // 2 + 1, rng.below(m), rng.below(m)))
        if op in (OP_MOD_MULT, OP_MOD_SQUARE, OP_MOD_MULT_DIGIT, OP_MOD_REDUCE) and rng.chance(1, 4):
            a = gv(rng, mb)                               # unreduced argument
        if op == OP_MOD_REDUCE:
            m = max(m, 3)
        t = rng.below(6)
        if t == 0:
            ca = _roundup(m.bit_length(), rng.choice((8, 128)))        # exactly the modulus width
        elif t == 1:
            ca = _roundup(m.bit_length(), 128) + 128
        else:
            ca = _roundup(2 * m.bit_length(), 128) + 128 * rng.range(1, 3)
        ca = min(MAXCAP, max(ca, _roundup(max(a.bit_length(), 1), 8)))
        cm = pick_cap(rng, m)
        if op in (OP_MOD_ADD, OP_MOD_SUB, OP_MOD_MULT):
            ops, slots = [(ca, a), (pick_cap(rng, n), n), (cm, m)], [0, 1, 2]
            if rng.chance(1, 6):
                ops, slots = [(ca, a), (cm, m)], [0, 0, 1]
                tag = "alias:x,x,m"
        else:
            ops, slots = [(ca, a), (cm, m)], [0, 1]
            if op == OP_MOD_MULT_DIGIT:
                dg = rng.choice((0, 1, 2, 3, 4, 0xff, rng.bits(8), rng.bits(128)))
    elif op in (OP_MOD_EXP, OP_MOD_EXP_DIGIT, OP_MOD_INV, OP_MOD_DIV, OP_MOD_SQRT, OP_LEGENDRE):
        mb = min(mb, rng.choice((64, 128, 256, 256, 521)))
        cls = None
        if op in (OP_MOD_SQRT, OP_LEGENDRE):
            cls = rng.choice(("3mod4", "5mod8", "1mod8", "2adic", "small"))
        m = pick_prime(rng, pool, mb, cls)
        if op in (OP_MOD_INV, OP_MOD_EXP, OP_MOD_EXP_DIGIT) and rng.chance(1, 5):
            m = O.gen_divisor(rng, mb) | 1                    # odd composite modulus
            m = max(m, 3)
        if op == OP_MOD_SQRT and rng.chance(1, 50):
            m += 1                                            # even modulus: documented EINVAL
        a = rng.choice((1, 2, 3, 4, m - 1, m - 2, rng.below(m), rng.below(m), rng.below(m)))
        if op in (OP_MOD_SQRT,) and rng.chance(2, 3) and m % 2:
            r = rng.below(m)
            a = r * r % m
        if op in (OP_MOD_SQRT, OP_LEGENDRE) and rng.chance(1, 10):
            a = rng.choice((0, m, a + m))
        ca = min(MAXCAP, _roundup(2 * m.bit_length(), 128) + 128 * rng.range(1, 3))
        if rng.chance(1, 6):
            ca = _roundup(m.bit_length(), 128) + rng.choice((0, 128))
        ca = min(MAXCAP, max(ca, _roundup(max(a.bit_length(), 1), 8)))
        cm = pick_cap(rng, m)
        ops, slots = [(ca, a), (cm, m)], [0, 1]
        if op in (OP_MOD_INV, OP_MOD_DIV):
            a = a % m
            tries = 0
            while (a == 0 or math.gcd(a, m) != 1) and tries < 50:
                a = rng.range(1, m - 1)
                tries += 1
            if a == 0 or math.gcd(a, m) != 1:
                a = 1
            if op == OP_MOD_INV:
                x[0] = rng.choice((0, 0, 1, 2, 3))
                if rng.chance(1, 30) and x[0] != 3:
                    a = rng.choice((0, m))                    # EINVAL by the explicit check in inv_bin/inv1/inv2
                ops = [(ca, a), (cm, m)]
            else:
                num = rng.below(m)
                ops, slots = [(ca, num), (pick_cap(rng, m), a), (cm, m)], [0, 1, 2]
        elif op == OP_MOD_EXP:
            e = rng.choice((0, 1, 2, 3, m - 1, m - 2, (m - 1) // 2, gv(rng, min(mb, 96)), rng.bits(16)))
            a %= m
            ops, slots = [(ca, a), (pick_cap(rng, e), e), (cm, m)], [0, 1, 2]
        elif op == OP_MOD_EXP_DIGIT:
            a %= m
            ops = [(ca, a), (cm, m)]
            x[0] = rng.choice((0, 1, 2, 3, 4, 5, 65537, rng.bits(20), rng.bits(63)))
        else:
            ops = [(ca, a), (cm, m)]
    elif op == OP_NAF:
        a = gv(rng, min(mb, 640))
        wnd = rng.choice((2, 2, 3, 4, 5, 6, 7, 8))
        if rng.chance(1, 40):
            wnd = rng.below(2)
        need = a.bit_length() + 1
        size = need + rng.choice((0, 0, 1, 5, 40)) if rng.chance(4, 5) else max(0, need - rng.range(1, 3))
        ops, slots = [(pick_cap(rng, a, extra_bits=rng.choice((0, 8, 128))), a)], [0]
        x[0], x[1] = wnd, size
        if rng.chance(1, 8):
            flags |= F_NULL_SIZERET
    elif op == OP_JSF:
        mbj = min(mb, 640)
        a, b = gv(rng, mbj), gv(rng, rng.choice((mbj, max(8, mbj // 2))))
        if rng.chance(1, 10):
            a, b = rng.choice(((0, b), (a, 0), (0, 0), (a, a)))
        need = 2 * (max(a.bit_length(), b.bit_length()) + 1)
        size = need + rng.choice((0, 0, 1, 9)) if rng.chance(5, 6) else max(0, need - rng.range(1, 4))
        ops, slots = [(pick_cap(rng, a), a), (pick_cap(rng, b), b)], [0, 1]
        x[0] = size
    elif op == OP_COMBO:
        a = gv(rng, mb)
        wb = rng.range(1, 8)
        wc = rng.range(1, max(1, (a.bit_length() + wb) // wb + 2))
        lo = (wb - 1) * wc
        off = lo + rng.below(wc + 3)
        ops, slots = [(pick_cap(rng, a), a)], [0]
        x = [off, wb, wc]
    elif op == OP_IMPORT:
        kind = rng.below(4)
        v = gv(rng, mb)
        ca = pick_cap(rng, v) if rng.chance(5, 6) else _roundup(max(1, v.bit_length() - rng.range(1, 64)), 8)
        prior = 0 if rng.chance(2, 3) else gv(rng, ca)
        nb = (v.bit_length() + 7) // 8
        pad = rng.choice((0, 0, 0, 1, 2, 8, 17))
        if kind < 2:
            raw = v.to_bytes(nb + pad, "big" if kind == 0 else "little")
            if rng.chance(1, 30):
                raw = b""
            buf = raw
        else:
            raw = v.to_bytes(nb + pad, "big" if kind == 2 else "little")
            txt = raw.hex()
            if rng.chance(1, 3):
                txt = "".join(ch.upper() if rng.chance(1, 2) else ch for ch in txt)
            if rng.chance(1, 6):                           # separators are skipped by the parser
                sep = rng.choice((" ", ":", "\n", "-"))
                txt = sep.join(txt[i:i + 2] for i in range(0, len(txt), 2))
            if rng.chance(1, 25) and txt:
                txt = txt[1:] if kind == 2 else txt[:-1]   # odd nibble count
            if rng.chance(1, 40):
                txt = ""
            buf = txt.encode()
            if rng.chance(1, 4):                           # any byte that is not a hex digit is skipped
                bb = bytearray(buf)
                for _ in range(rng.range(1, 6)):
                    bb.insert(rng.below(len(bb) + 1), NONHEX[rng.below(len(NONHEX))])
                buf = bytes(bb)
        ops, slots = [(ca, prior)], [0]
        x[0] = kind
    elif op == OP_EXPORT:
        kind = rng.below(4)
        a = gv(rng, mb)
        if rng.chance(1, 3):                               # values whose top digit is partly empty
            k = rng.range(1, mb)
            a = rng.choice(((1 << k), (1 << k) - 1, (1 << k) | rng.bits(min(k, 16))))
            a %= 1 << mb
        need = (a.bit_length() + 7) // 8 * (2 if kind >= 2 else 1)
        t = rng.below(10)
        if t <= 5:
            size = max(0, need + rng.range(-3, 2))
        elif t == 6:
            size = rng.below(need + 2)
        elif t == 7:
            size = need + rng.choice((15, 16, 17, 31, 33))
        else:
            size = max(0, _roundup(need, 16) + rng.range(-1, 1))
        ops, slots = [(pick_cap(rng, a), a)], [0]
        x = [kind, rng.below(2), size]
        if rng.chance(1, 6):
            flags |= F_NULL_SIZERET
    else:  # OP_DIGIT
        sub = rng.choice((0, 0, 1, 1, 1, 2, 3, 4, 5, 5))

        def dgt():
            t = rng.below(8)
            if t == 0:
                return rng.choice((0, 1, 2, 3))
            if t == 1:
                return (1 << 128) - 1 - rng.below(3)
            if t == 2:
                return 1 << rng.below(128)
            if t == 3:
                g = rng.choice((8, 16, 32, 64, 128))
                return rng.choice(((1 << (g - 1)), (1 << g) - 1, (1 << (g - 1)) + 1, (1 << (g // 2)) - 1,
                                   1 << (g // 2)))
            if t == 4:
                r = rng.bits(128)
                return r | (r << 64) | (1 << 127) | (1 << 63) | (1 << 31) | (1 << 15) | (1 << 7)
            return rng.bits(128) >> rng.choice((0, 0, 64, 96, 112, 120, 3))
        M128 = (1 << 128) - 1
        d0, d1, d2 = dgt() & M128, dgt() & M128, dgt() & M128
        if sub == 5:
            # bn_digit_div__int_short is an internal helper: quotient must fit one digit (hi < divisor)
            # -> make hi < divisor at every width by masking hi to fewer bits than the divisor has
            pass
        buf = d0.to_bytes(16, "little") + d1.to_bytes(16, "little") + d2.to_bytes(16, "little")
        ops, slots = [], []
        x[0] = sub
    for cap, v in ops:
        if v < 0 or v.bit_length() > _roundup(cap, 8):
            raise ValueError("generator produced an operand outside [0, 2^capacity) for %s" % OPNAME[op])
    if rng.chance(1, 2):
        flags |= F_DIGIT_JUNK
    c = Case(op, ops, slots, x, dg, buf, flags, tag.strip())
    c.patA = rng.range(2, 255)
    c.patB = c.patA
    while c.patB == c.patA:
        c.patB = rng.range(2, 255)
    return c


# ---------------------------------------------------------------------------
# behaviour-class features
# ---------------------------------------------------------------------------
def _bucket(n):
    if n <= 2:
        return str(n)
    if n <= 4:
        return "3-4"
    if n <= 8:
        return "5-8"
    if n <= 32:
        return "9-32"
    return "33+"


def carry_chain(a, b, w, sub=False):
    """longest run of consecutive digits that receive a carry (borrow) from below"""
    mask = (1 << w) - 1
    cy = 0
    run = best = 0
    n = max(nd(a, w), nd(b, w)) + 1
    for i in range(n):
        x, y = (a >> (i * w)) & mask, (b >> (i * w)) & mask
        if sub:
            t = x - y - cy
            cy = 1 if t < 0 else 0
        else:
            t = x + y + cy
            cy = t >> w
        if cy:
            run += 1
            best = max(best, run)
        else:
            run = 0
    return best


def div_corrections(n, d, w):
    """how many times bn_div's `while` correction loop runs at most for one quotient digit
    (re-derivation of its quotient-digit under-estimate: floor(top two digits / (t+1)))"""
    if d == 0 or n <= d:
        return -1
    B = 1 << w
    sh = clzw(d, w)
    nn, dd = n << sh, d << sh
    ddn = nd(dd, w)
    t = dd >> ((ddn - 1) * w)
    worst = 0
    for j in range(nd(nn, w) - ddn, -1, -1):
        R = nn >> (j * w)
        if t == B - 1:
            ai = R >> (ddn * w)
        else:
            ai = (R >> ((ddn - 1) * w)) // (t + 1)
        q = R // dd
        worst = max(worst, q - ai)
        nn -= (q * dd) << (j * w)
    return worst


def features(c, w, exp, rc):
    f = []
    V = [v for _, v in c.ops]
    if c.op in (OP_ADD, OP_SUB) and len(V) >= 2:
        a, b = V[c.slots[0]], V[c.slots[1]]
        ch = carry_chain(a, b, w, c.op == OP_SUB)
        f.append("chain" + ("0" if ch == 0 else "1" if ch == 1 else "2+"))
        if c.op == OP_ADD and (a + b) >> (cnt(c.ops[c.slots[0]][0], w) * w):
            f.append("carry-out")
        if c.op == OP_SUB and a < b:
            f.append("borrow-out")
    elif c.op in (OP_DIV, OP_MOD) and len(V) >= 2:
        n, d = V[c.slots[0]], V[c.slots[1]]
        k = div_corrections(n, d, w)
        f.append("corr" + ("-" if k < 0 else str(min(k, 3))))
        if d and nd(d, w) >= 1:
            top = d >> ((nd(d, w) - 1) * w)
            f.append("top" + ("MAX" if top == (1 << w) - 1 else "HI" if top == 1 << (w - 1) else "1" if top == 1 else "x"))
    elif c.op in (OP_LSHIFT, OP_RSHIFT):
        k = c.x[0]
        f.append("bytewise" if (k % 8 == 0 or k > w) else "bitwise")
        if k >= w:
            f.append("multi-digit")
    elif c.op == OP_MOD_SQRT:
        f.append(exp.label)
    elif c.op in (OP_EXPORT,):
        f.append("auto" if c.x[1] & 1 else "fixed")
    elif c.op == OP_MULT_DIGIT:
        d = c.dg & ((1 << w) - 1)
        f.append("d" + (str(d) if d < 4 else "pow2" if d & (d - 1) == 0 else "x"))
    return f


def behaviour_class(c, w, exp, outcome):
    V = [v for _, v in c.ops]
    dig = tuple(_bucket(nd(v, w)) for v in V[:2])
    return (c.name(), c.tag or "-", "w%d" % w, dig, exp.region + (":" + exp.label if exp.label else ""),
            outcome, tuple(features(c, w, exp, 0)))


# ---------------------------------------------------------------------------
# running
# ---------------------------------------------------------------------------
UB_RE = None


def run_cases_ex(exe, cases, env_extra=None, wall_timeout=1800, max_hangs=1):
    """like common.run_cases but also returns the sanitizer text printed by runs that did not die
    (UBSan/MSan are built recoverable so that every case still yields an observation)."""
    import struct
    results = []
    texts = []
    start = 0
    hangs = 0
    env = common.run_env(env_extra)
    while start < len(cases):
        data = b"".join(common.pack_case(x) for x in cases[start:])
        try:
            p = subprocess.run([exe], input=data, stdout=subprocess.PIPE, stderr=subprocess.PIPE, env=env,
                               timeout=wall_timeout)
            rc, out, err = p.returncode, p.stdout, p.stderr
        except subprocess.TimeoutExpired as e:
            rc, out, err = 97, e.stdout or b"", (e.stderr or b"") + b"\nVERIF-HANG wall watchdog"
        obs = common._parse_obs(out)
        results.extend(obs)
        text = err.decode("utf-8", "replace")
        remaining = len(cases) - start
        if len(obs) >= remaining:
            texts.append(text)
            break
        # the report of the fatal event is the tail; earlier recoverable reports stay in texts
        cr = common.Crash(common.classify_crash(rc, text[-8000:]), text[-6000:], rc)
        results.append(cr)
        texts.append(text[:-6000] if len(text) > 6000 else "")
        start += len(obs) + 1
        if cr.kind == "hang":
            hangs += 1
            if hangs >= max_hangs:
                # every hang costs a full CPU budget: after a few of them the rest of the batch is
                # not executed (reported as 'skipped', the hangs themselves are violations)
                results.extend([common.Crash("skipped", "", None)] * (len(cases) - len(results)))
                break
    return results[:len(cases)], "\n".join(texts)


def soft_reports(text):
    """keys of recoverable UBSan / MSan reports: kind:function:detail"""
    import re
    out = {}
    lines = text.splitlines()
    for i, ln in enumerate(lines):
        m = re.search(r"runtime error: (.*)", ln)
        kind = None
        if m:
            kind = "ubsan"
            d = re.sub(r"0x[0-9a-f]+", "ADDR", m.group(1))
            d = re.sub(r"-?\d+", "N", d)[:70].strip().replace(" ", "_")
        elif "WARNING: MemorySanitizer:" in ln:
            kind = "msan"
            d = "use-of-uninitialized-value"
        if not kind:
            continue
        fn = ""
        for l2 in lines[i + 1:i + 8]:
            m2 = re.search(r"#\d+ 0x[0-9a-f]+ in (\S+)", l2)
            if m2:
                fn = m2.group(1)
                break
        if not fn:
            m3 = re.search(r"(\w+\.[ch]):\d+", ln)
            fn = m3.group(1) if m3 else "?"
        k = "%s:%s:%s" % (kind, fn, d)
        out[k] = out.get(k, 0) + 1
    return out


SOFT_ENV = {"UBSAN_OPTIONS": "print_stacktrace=1:halt_on_error=0:exitcode=87",
            "MSAN_OPTIONS": "halt_on_error=0:exitcode=88"}

ASAN_LEAVES_OBJECT = ("heap-buffer-overflow", "stack-buffer-overflow", "global-buffer-overflow",
                      "negative-size-param", "stack-overflow", "SEGV", "dynamic-stack-buffer-overflow",
                      "stack-use-after-return", "stack-use-after-scope", "heap-use-after-free",
                      "memcpy-param-overlap", "stack-buffer-underflow", "unknown-crash")


def variant_flags(v):
    fl = ["-DBN_DIGIT_BIT_CNT=%d" % v["w"], "-DBN_BIT_LEN=%d" % v["L"]]
    if v["cc"]:
        fl.append("-DBN_CC_MULL_DIV")
    if v["san"] == "plain":
        fl.append(v["opt"])
    elif v["san"] == "asu":
        fl.append("-fsanitize-recover=undefined")
    elif v["san"] == "msan":
        fl.append("-fsanitize-recover=memory")
    return fl


def variant_name(v):
    return "%s-%s%s-w%d%s-L%d" % (v["san"], v["compiler"], v["opt"] if v["san"] == "plain" else "",
                                   v["w"], "cc" if v["cc"] else "", v["L"])


def build_kwargs(v):
    return dict(name="c01_" + variant_name(v).replace("-", "_"), sources=[DRIVER], san=v["san"],
                cc=v["compiler"], flags=variant_flags(v))


def gen_chunk(seed, chunk_id, n, pool):
    rng = Rng(seed, PROP, "chunk", chunk_id)
    return [gen_case(rng, pool) for _ in range(n)]


def witness(c, v, exp, obs, extra=None):
    wtn = {"variant": {k: v[k] for k in ("w", "cc", "compiler", "opt", "san", "L")},
           "case": c.to_json(), "seed": common.seed(),
           "expected": {"region": exp.region, "label": exp.label,
                        "outputs": {str(k): hex(x) for k, x in exp.outs.items()}}}
    if obs is not None:
        wtn["observed"] = {"rc": obs.get("rc"),
                           "operands": [[b["count"], b["digits"], hex(b["value"])] for b in obs.get("bn", [])],
                           "carry": obs.get("carry"), "size_ret": obs.get("szret"),
                           "out_buffer": bytes(obs.get("obuf", [])).hex()[:400]}
    if extra:
        wtn.update(extra)
    return wtn


def evaluate(c, v, res, part, soft_only=False):
    """judge one (case, variant) result; returns outcome string"""
    w, L = v["w"], v["L"]
    exp = expect(c, w, L)
    name = c.name()
    part["evaluations"] += 1
    common.part_count(part, "cases:" + name)
    if exp.obs_note:
        part["observations"][exp.obs_note] = part["observations"].get(exp.obs_note, 0) + 1
    if isinstance(res, common.Crash) and res.kind == "skipped":
        common.part_count(part, "cases_skipped_after_repeated_hangs")
        part["evaluations"] -= 1
        return "skipped"
    if isinstance(res, common.Crash):
        lab = (":" + exp.label) if exp.label else ""
        if res.kind == "exit" or (res.kind == "signal" and res.returncode in (-9, -15)):
            part["inconclusive"].append("driver died (%s rc=%s) in %s" % (res.kind, res.returncode, variant_name(v)))
            return "harness"
        if exp.unsafe:
            key = "crash:%s%s" % (name, lab)
        elif res.kind == "hang":
            key = "hang:%s%s" % (name, lab)
        elif res.kind == "asan":
            import re
            m = re.search(r"ERROR: AddressSanitizer: (\S+)", res.report or "")
            det = m.group(1) if m else "?"
            key = "asan:%s:%s%s" % (name, det, lab)
            if det not in ASAN_LEAVES_OBJECT:
                part["observations"][key] = part["observations"].get(key, 0) + 1
                part["classes"].add(behaviour_class(c, w, exp, "asan-observation"))
                return "crash-observed"
        elif res.kind in ("ubsan", "msan"):
            key = common.crash_key(res, name)
            part["observations"][key] = part["observations"].get(key, 0) + 1
            return "crash-observed"
        else:
            key = "signal:%s%s" % (name, lab)
        part["violations"].append((key, witness(c, v, exp, None, {"crash": {"kind": res.kind, "rc": res.returncode,
                                                                          "report": (res.report or "")[-3000:]}})))
        part["classes"].add(behaviour_class(c, w, exp, "crash"))
        return "crash"
    r = PR(res)
    nruns = r.u8()
    if nruns != 2:
        part["inconclusive"].append("driver could not parse a case (%s)" % name)
        return "harness"
    oa = parse_run(r.blob(), c, w)
    ob = parse_run(r.blob(), c, w)
    if oa.get("setup_error"):
        part["inconclusive"].append("operand setup failed rc=%d for %s in %s" % (oa["rc"], name, variant_name(v)))
        return "harness"
    diff = compare_runs(oa, ob, c)
    if exp.unsafe:
        probs = judge(c, w, L, exp, oa)
        if diff or probs:
            key = "crash:%s:%s" % (name, exp.label)
            part["violations"].append((key, witness(c, v, exp, oa, {"what": "no crash but %s" % (
                diff and "junk-dependent result" or probs[0][0])})))
        part["classes"].add(behaviour_class(c, w, exp, "unsafe-args"))
        return "unsafe"
    if diff:
        key = "nonint:%s:%s" % (name, diff) + ((":" + exp.label) if exp.label else "")
        part["violations"].append((key, witness(c, v, exp, oa, {"second_run": witness(c, v, exp, ob)["observed"],
                                                                 "what": "observations differ between junk patterns"})))
    probs = judge(c, w, L, exp, oa)
    for kind, detail in probs:
        key = "oracle:%s:%s" % (name, kind) + ((":" + detail) if detail else "")
        part["violations"].append((key, witness(c, v, exp, oa)))
    outcome = "ok" if oa["rc"] == 0 else "err"
    if probs or diff:
        outcome += "!"
    part["classes"].add(behaviour_class(c, w, exp, outcome))
    common.part_count(part, "outcome:%s:%s:%s" % (name, exp.region, "rc0" if oa["rc"] == 0 else "error"))
    return outcome


HANG_LIMIT = 6


def work_chunk(job):
    """job: dict(seed, chunk, n, pool, variants=[(vdict, exe)]) - all variants share one digit width"""
    part = common.new_part()
    cases = [] if job.get("directed") else gen_chunk(job["seed"], job["chunk"], job["n"], job["pool"])
    for v, exe in job["variants"]:
        if job.get("directed"):
            cases = directed_cases(job["seed"], v["w"], v["L"])
        # capacities must exist in this build: bits <= BN_BIT_LEN and whole digits <= BN_MAX_DIGITS
        sel = [c for c in cases if c.maxcap() <= v["L"] and cnt(c.maxcap(), v["w"]) <= v["L"] // v["w"]]
        if v.get("light"):
            sel = [c for c in sel if not heavy(c)]
        if not sel:
            continue
        hfile = os.path.join(job["hangdir"], variant_name(v)) if job.get("hangdir") else None
        if hfile and os.path.exists(hfile) and os.path.getsize(hfile) >= HANG_LIMIT:
            # this build already hung HANG_LIMIT times in this run (each hang burns a full CPU budget and
            # is reported as a violation): do not feed it further batches
            common.part_count(part, "batches_not_run_after_%d_hangs:%s" % (HANG_LIMIT, variant_name(v)))
            continue
        # arguments outside the memory-safe domain of the void shift functions may corrupt the heap
        # silently in builds without ASan: those cases get a process of their own
        exps = [expect(c, v["w"], v["L"]) for c in sel]
        solo = [i for i, e in enumerate(exps) if e.unsafe or e.solo]
        batch = [i for i, e in enumerate(exps) if not (e.unsafe or e.solo)]
        results = [None] * len(sel)
        bres, text = run_cases_ex(exe, [sel[i].encode() for i in batch], SOFT_ENV)
        bres = list(bres) + [common.Crash("exit", "no result", None)] * (len(batch) - len(bres))
        if v["san"] != "asu":
            # a crash that does not reproduce in a fresh process was caused by an earlier case that
            # damaged the heap: re-run that stretch one case per process and use those results
            prev = 0
            for j, r in enumerate(list(bres)):
                if isinstance(r, common.Crash):
                    if r.kind in ("signal", "msan") and not isinstance(
                            run_cases_ex(exe, [sel[batch[j]].encode()], SOFT_ENV)[0][0], common.Crash):
                        for k in range(prev, j + 1):
                            bres[k] = run_cases_ex(exe, [sel[batch[k]].encode()], SOFT_ENV)[0][0]
                        common.part_count(part, "stretches_rerun_in_isolation")
                    prev = j + 1
        for i, r in zip(batch, bres):
            results[i] = r
        for i in solo:
            rr, t2 = run_cases_ex(exe, [sel[i].encode()], SOFT_ENV)
            results[i] = rr[0] if rr else common.Crash("exit", "no result", None)
        for k, n in soft_reports(text).items():
            part["observations"][k] = part["observations"].get(k, 0) + n
        solo_set = set(solo)
        for i, (c, res) in enumerate(zip(sel, results)):
            evaluate(c, v, res, part)
            if hfile and isinstance(res, common.Crash) and res.kind == "hang" and i not in solo_set:
                try:
                    with open(hfile, "ab") as fh:
                        fh.write(b"x")
                except OSError:
                    pass
        if len(results) < len(sel):
            part["inconclusive"].append("driver produced %d of %d results in %s" % (len(results), len(sel), variant_name(v)))
        common.part_count(part, "variant_cases:" + variant_name(v), len(sel))
        if len(part["samples"]) < 2 and sel:
            c = sel[job["chunk"] % len(sel)]
            part["samples"].append({"variant": variant_name(v), "case": c.to_json()})
    # keep the part small: one witness per key
    seen = set()
    vv = []
    counts = {}
    for k, wtn in part["violations"]:
        counts[k] = counts.get(k, 0) + 1
        if k not in seen:
            seen.add(k)
            vv.append((k, wtn))
    part["violations"] = vv
    part["viol_counts"] = counts
    return part


NONHEX = bytes(b for b in range(256) if b not in HEXCH)


def directed_cases(seed, w, L):
    """Deterministic sweeps that every build variant gets in every run:
    (1) bn_init() for every bit count around the digit and BN_BIT_LEN boundaries (matters when
        BN_BIT_LEN is not a multiple of the digit width: the array has BN_BIT_LEN / width digits,
        rounded down);
    (2) hex import with EVERY byte value that is not a hex digit used as garbage, at the ends,
        between bytes and between the two nibbles of a byte, for both byte orders."""
    rng = Rng(seed, PROP, "directed", w, L)
    out = []
    maxd = L // w
    bitset = {0, 1, 2, 7, 8, 9, w - 1, w, w + 1, 2 * w, L - 1, L, L + 1, L + 2, L + w, 2 * L, 1 << 20}
    bitset.update(range(max(1, maxd * w - 2), L + 3))
    bitset.update(range(max(1, (maxd - 1) * w - 1), (maxd - 1) * w + 2))
    for bits in sorted(b for b in bitset if b >= 0):
        c = Case(OP_INIT, [], [], [bits, 0, 0], tag="sweep")
        c.patA, c.patB = 2 + (bits * 7) % 250, 3 + (bits * 11 + 5) % 249
        if c.patA == c.patB:
            c.patB = 2 + (c.patB + 1) % 250
        out.append(c)
    # (3) operations with small-operand fast paths, operands that are zero or short, every small
    #     digit value (1,2,3,0,all-ones) once in the first dead digit of every operand
    capS = min(256, maxd * w)
    m = 0xffffffffffffffc5 if capS >= 64 else 251            # primes: 2^64-59, 251
    xs = (0, 1, 2, 3, m - 1, 0x1234567 % m)
    base = []
    for xv in xs:
        for e in (0, 1, 2, 3):
            base.append(Case(OP_MOD_EXP, [(capS, xv), (capS, e), (capS // 2, m)], [0, 1, 2]))
            base.append(Case(OP_MOD_EXP_DIGIT, [(capS, xv), (capS // 2, m)], [0, 1], [e, 0, 0]))
        for yv in (0, 1, 2, 3):
            base.append(Case(OP_MULT, [(capS, xv), (capS // 2, yv)], [0, 1]))
            base.append(Case(OP_MULT_DIGIT, [(capS, xv)], [0], dg=yv))
            base.append(Case(OP_ADD, [(capS, xv), (capS // 2, yv)], [0, 1]))
            base.append(Case(OP_SUB, [(capS, xv), (capS // 2, yv)], [0, 1]))
            base.append(Case(OP_CMP, [(capS, xv), (capS // 2, yv)], [0, 1]))
            base.append(Case(OP_OR, [(capS, xv), (capS // 2, yv)], [0, 1]))
            base.append(Case(OP_GCD, [(capS, 5), (capS, xv), (capS, yv)], [0, 1, 2]))
            base.append(Case(OP_MOD_MULT, [(capS, xv), (capS // 2, yv), (capS // 2, m)], [0, 1, 2]))
            if yv:
                base.append(Case(OP_DIV, [(capS, xv), (capS // 2, yv), (capS // 2, 9)], [0, 1, 2]))
                base.append(Case(OP_MOD, [(capS, xv), (capS // 2, yv)], [0, 1]))
        for k in (0, 1, 8, w):
            base.append(Case(OP_LSHIFT, [(capS, xv)], [0], [k, 0, 0]))
            if k <= nd(xv, w) * w:
                base.append(Case(OP_RSHIFT, [(capS, xv)], [0], [k, 0, 0]))
        base.append(Case(OP_QUERY, [(capS, xv)], [0], [rng.below(w), 0, 0]))
        base.append(Case(OP_SQUARE, [(capS, xv)], [0]))
        base.append(Case(OP_EXP_DIGIT, [(capS, xv)], [0], dg=rng.below(4)))
        base.append(Case(OP_NAF, [(capS, xv)], [0], [2 + rng.below(3), xv.bit_length() + 2, 0]))
        base.append(Case(OP_JSF, [(capS, xv), (capS, 3)], [0, 1], [2 * (max(xv.bit_length(), 2) + 1), 0, 0]))
        base.append(Case(OP_EXPORT, [(capS, xv)], [0], [rng.below(4), rng.below(2), 20]))
        base.append(Case(OP_MOD_REDUCE, [(capS, xv), (capS // 2, m)], [0, 1]))
    for bi, bc in enumerate(base):
        for r in range(5):
            c = Case(bc.op, bc.ops, bc.slots, bc.x, bc.dg, bc.buf, bc.flags | F_DIGIT_JUNK, "small-stale-digits")
            c.patA = 2 + (bi * 13 + r * 7) % 250
            c.patB = 5 * (1 + (bi + 3 * r) % 49) + r          # patB mod 5 == r: rotates the small-value table
            if c.patB == c.patA:
                c.patA += 1
            out.append(c)
    cap = min(128, maxd * w)
    nby = cap // 8
    for g in NONHEX:
        gb = bytes([g])
        for kind in (2, 3):
            v = rng.bits(8 * min(nby, 4)) | 1
            txt = v.to_bytes(min(nby, 4), "big").hex().encode()
            if rng.chance(1, 2):
                txt = txt.upper()
            lay = [
                txt[:2] + gb + gb + txt[2:],                                   # between bytes, doubled
                gb + gb.join(txt[i:i + 1] for i in range(len(txt))) + gb,      # around every nibble
                gb + txt + gb,                                                 # both ends
            ]
            for t in lay:
                c = Case(OP_IMPORT, [(cap, 0)], [0], [kind, 0, 0], buf=t, tag="garbage-sweep")
                c.patA, c.patB = 2 + g % 200, 40 + (g * 3) % 200
                if c.patA == c.patB:
                    c.patB += 1
                out.append(c)
    return out


def heavy(c):
    """cases whose cost explodes with narrow digits / portable multiply (kept off the slowest builds)"""
    if c.op in (OP_MOD_SQRT, OP_MOD_EXP, OP_LEGENDRE, OP_MOD_EXP_DIGIT):
        return c.maxcap() > 700
    return False


# ---------------------------------------------------------------------------
# exhaustive sub-domain (8-bit digits, in-driver, native reference)
# ---------------------------------------------------------------------------
def work_exh(job):
    v, exe = job["variant"], job["exe"]
    part = common.new_part()
    args = [exe, "exh", str(job["a_lo"]), str(job["a_hi"]), str(job["b_bits"]), str(job["pat"])]
    try:
        p = subprocess.run(args, stdout=subprocess.PIPE, stderr=subprocess.PIPE, env=common.run_env(SOFT_ENV),
                           timeout=3600)
    except subprocess.TimeoutExpired:
        part["inconclusive"].append("exhaustive slice timed out: %s" % " ".join(args[1:]))
        return part
    out = p.stdout.decode("utf-8", "replace")
    lines = [ln for ln in out.splitlines() if ln.strip()]
    if p.returncode != 0 or len(lines) < 8:
        err = p.stderr.decode("utf-8", "replace")
        kind = common.classify_crash(p.returncode, err)
        if kind == "hang":
            part["violations"].append(("exhaustive:hang", {"variant": v, "exh_args": args[1:], "report": err[-300:],
                                                           "seed": common.seed()}))
        elif kind in ("asan", "signal"):
            cr = common.Crash(kind, err[-6000:], p.returncode)
            part["violations"].append(("exhaustive:" + common.crash_key(cr, "bn"),
                                       {"variant": v, "exh_args": args[1:], "report": err[-3000:]}))
        else:
            part["inconclusive"].append("exhaustive slice failed rc=%s: %s" % (p.returncode, err[-300:]))
        return part
    for ln in lines:
        f = ln.split(" ", 4)
        opn, n, errs, bad = f[0], int(f[1]), int(f[2]), int(f[3])
        first = f[4] if len(f) > 4 else "-"
        common.part_count(part, "exh:%s:%s:cases" % (variant_name(v), opn), n)
        common.part_count(part, "exh:%s:%s:explicit_errors" % (variant_name(v), opn), errs)
        common.part_count(part, "exh_total_cases", n)
        if bad:
            what = first.split(" ", 1)[0]
            part["violations"].append(("exhaustive:%s:mismatch" % what,
                                       {"variant": v, "exh_args": args[1:], "mismatches": bad, "first": first,
                                        "seed": common.seed()}))
    for k, n in soft_reports(p.stderr.decode("utf-8", "replace")).items():
        part["observations"][k] = part["observations"].get(k, 0) + n
    return part


# ---------------------------------------------------------------------------
# variant matrix
# ---------------------------------------------------------------------------
WIDTHS = [(8, False), (8, True), (16, False), (16, True), (32, False), (32, True), (64, False), (64, True),
          (128, False)]


def V(w, cc, san="plain", compiler="gcc", opt="-O2", L=2048, light=False, extra=()):
    return {"w": w, "cc": cc, "san": san, "compiler": compiler, "opt": opt if san == "plain" else "",
            "L": L, "light": light, "extra": list(extra)}


def matrix(tier):
    vs = []
    for w, cc in WIDTHS:
        vs.append(V(w, cc, "asu"))
    if tier == "quick":
        for w, cc in WIDTHS:
            vs.append(V(w, cc, "plain", "gcc", "-O2"))
        vs.append(V(8, False, "plain", "clang", "-O3", L=256))
        vs.append(V(64, True, "plain", "clang", "-O0", L=256))
        vs.append(V(32, False, "plain", "clang", "-O2", L=256))
        # BN_BIT_LEN that is not a multiple of the digit width: num[] has BN_BIT_LEN / width digits, rounded down
        vs.append(V(64, True, "asu", L=160))
        vs.append(V(32, False, "plain", "gcc", "-O2", L=521))
        return vs
    for w, cc in WIDTHS:
        for comp in ("gcc", "clang"):
            for opt in ("-O0", "-O2", "-O3"):
                vs.append(V(w, cc, "plain", comp, opt))
    for w, cc in WIDTHS:
        vs.append(V(w, cc, "plain", "gcc" if w in (8, 32, 128) else "clang", "-O2", L=256))
    for w, cc in ((8, False), (16, True), (64, True), (64, False), (128, False)):
        vs.append(V(w, cc, "msan", "clang"))
    vs.append(V(64, True, "asu", L=160))
    vs.append(V(32, False, "plain", "gcc", "-O2", L=521))
    vs.append(V(64, False, "plain", "clang", "-O2", L=521))
    vs.append(V(128, False, "plain", "gcc", "-O2", L=1000))
    vs.append(V(16, True, "asu", L=521))
    for w, cc in ((8, False), (64, True)):
        vs.append(V(w, cc, "plain", "gcc", "-O2", extra=("-ftrivial-auto-var-init=pattern",)))
        vs.append(V(w, cc, "plain", "gcc", "-O2", extra=("-ftrivial-auto-var-init=zero",)))
    return vs


_variant_flags0 = variant_flags


def variant_flags(v):  # noqa: F811  (adds the optional extra flags)
    return _variant_flags0(v) + list(v.get("extra", ()))


_variant_name0 = variant_name


def variant_name(v):  # noqa: F811
    n = _variant_name0(v)
    for e in v.get("extra", ()):
        n += "-" + e.split("=")[-1]
    return n


RULE = ("Cases are drawn from a seeded (VERIF_SEED, splitmix64 per 500-case chunk) boundary-biased generator: "
        "operation by weight; operand values 0,1,2, 2^k-1/2^k/2^k+1 at 8/16/32/64/128-bit digit boundaries, "
        "all-ones, single-bit, sparse, dense, full-capacity; divisors with top digit MAX/HI_BIT/1 and Knuth-D "
        "adversarial pairs; moduli = Miller-Rabin generated primes of classes 3 mod 4, 5 mod 8, 1 mod 8, "
        "large 2-adic part, plus P-224/256/384/521, 2^255-19, secp256k1, n256; capacities tight / +1 digit / "
        "ample in multiples of 8 and 128 bits; permitted aliasing forms.  The same stream goes to every build "
        "variant; each (case, variant) execution runs twice with different junk in all dead storage and is "
        "compared with Python integers.  A behaviour class = (entry point, aliasing form, digit width, "
        "digit-count bucket of the first two operands, contract region+label, outcome, features: carry/borrow "
        "chain length, quotient-digit corrections needed, divisor top digit kind, byte/bit shift path, export "
        "mode); only classes actually executed are counted.")


def run(tier):
    rep = common.Report(PROP, tier, "exploration")
    rep.rule = RULE
    rep.assumptions = [
        "bn_t objects are set up by the driver: bn_init() for the capacity, value bytes and `digits` written "
        "by hand, every other byte of the object holds a per-run junk pattern",
        "modular operations are driven with reduced arguments and odd moduli where the code documents that; "
        "bn_mod_inv* only with invertible arguments; shifts beyond the operand/capacity are driven but keyed "
        "separately (crash:*)",
        "Barrett reduction, bn_egcd, bn_mod_inv3, bn_sqrt4 (self-declared broken) and the non-default "
        "bn_sqrt2/3/5 are not driven",
    ]
    seed = common.seed()
    vs = matrix(tier)
    specs = [(variant_name(v), build_kwargs(v)) for v in vs]
    exes = common.try_builds(rep, specs)
    live = [(v, exes[variant_name(v)]) for v in vs if variant_name(v) in exes]
    if not any(v["san"] == "asu" for v, _ in live) or not any(v["san"] == "plain" for v, _ in live):
        rep.inconclusive.append("no sanitizer or no plain build available")
        return rep.finish()
    pool = make_primes((seed, PROP, "primes"))
    if tier == "quick":
        nchunks, per = 30, 500
    else:
        nchunks, per = 220, 500
    nchunks = int(os.environ.get("C01_CHUNKS", nchunks))
    jobs = []
    by_w = {}
    hangdir = os.path.join(common.BUILD_DIR, "c01_hangs_%d" % os.getpid())
    os.makedirs(hangdir, exist_ok=True)
    for v, exe in live:
        by_w.setdefault(v["w"], []).append((v, exe))
    for ch in range(nchunks):
        for w, lst in sorted(by_w.items()):
            # split wide groups so that jobs stay short
            for i in range(0, len(lst), 6):
                jobs.append({"seed": seed, "chunk": ch, "n": per, "pool": pool, "variants": lst[i:i + 6],
                             "hangdir": hangdir})
    for w, lst in sorted(by_w.items()):
        for i in range(0, len(lst), 6):
            jobs.append({"seed": seed, "chunk": -1, "n": 0, "pool": None, "variants": lst[i:i + 6],
                         "hangdir": hangdir, "directed": True})
    # exhaustive slices on the 8-bit plain builds (both multiply/divide implementations)
    ejobs = []
    exh_variants = [(v, exe) for v, exe in live
                    if v["w"] == 8 and v["san"] == "plain" and v["compiler"] == "gcc" and v["opt"] == "-O2"
                    and v["L"] == 2048 and not v.get("extra")]
    if tier == "quick":
        a_slices = [(s * 4096 + (s * 37) % 3840, 224) for s in range(16)]   # 16 x 224 values of a spread over 16 bits
        a_slices = [(lo, lo + n) for lo, n in a_slices] + [(0, 512), (65536 - 256, 65536)]
        b_bits = 10
    else:
        a_slices = [(lo, lo + 1024) for lo in range(0, 65536, 1024)]
        b_bits = 12
    for v, exe in exh_variants:
        for lo, hi in a_slices:
            ejobs.append({"variant": v, "exe": exe, "a_lo": lo, "a_hi": hi, "b_bits": b_bits,
                          "pat": (seed * 13 + lo) % 251 + 2})
    viol_counts = {}
    for part in common.parallel(_dispatch, [("exh", j) for j in ejobs] + [("chunk", j) for j in jobs]):
        for k, n in part.pop("viol_counts", {}).items():
            viol_counts[k] = viol_counts.get(k, 0) + n
        rep.merge(part)
    import shutil
    shutil.rmtree(hangdir, ignore_errors=True)
    for k, n in viol_counts.items():
        if k in rep.violations:
            rep.violations[k]["count"] = max(rep.violations[k]["count"], n)
    # evidence bookkeeping
    per_op = {k[6:]: n for k, n in rep.extra.items() if k.startswith("cases:")}
    outcomes = {k[8:]: n for k, n in rep.extra.items() if k.startswith("outcome:")}
    per_variant = {k[14:]: n for k, n in rep.extra.items() if k.startswith("variant_cases:")}
    exh = {k[4:]: n for k, n in rep.extra.items() if k.startswith("exh:")}
    exh_total = rep.extra.get("exh_total_cases", 0)
    for k in list(rep.extra):
        if k.startswith(("cases:", "outcome:", "variant_cases:", "exh:")) or k == "exh_total_cases":
            del rep.extra[k]
    rep.extra["cases_per_operation"] = per_op
    rep.extra["outcomes_per_operation_region"] = outcomes
    rep.extra["cases_per_variant"] = per_variant
    rep.extra["exhaustive_subdomain"] = {
        "exhaustive": bool(tier == "thorough" and exh_total > 0),
        "domain": ("a in [0,2^16) x b in [0,2^%d), 8-bit digits, every capacity from digits(a) to "
                   "digits(a)+digits(b)+1; shifts 0..capacity" % b_bits) if tier == "thorough" else
                  ("18 slices of a (4096 values spread over [0,2^16)) x b in [0,2^%d), 8-bit digits" % b_bits),
        "operations": "bn_add bn_sub bn_mult bn_div(+alias) bn_cmp bn_l_shift bn_r_shift bn_gcd bn_gcd_bin",
        "reference": "native unsigned __int128 arithmetic inside the driver",
        "library_calls": exh_total, "per_variant": exh,
    }
    rep.extra["case_stream"] = {"chunks": nchunks, "cases_per_chunk": per, "distinct_cases": nchunks * per}
    want_names = set()
    for o, _ in OP_WEIGHTS:
        if o == OP_IMPORT:
            want_names.update("bn_import_" + k for k in IMPEXP)
        elif o == OP_EXPORT:
            want_names.update("bn_export_" + k for k in IMPEXP)
        elif o == OP_MOD_INV:
            want_names.update(INVNAME)
        elif o == OP_DIGIT:
            want_names.update(DIGITSUB)
        else:
            want_names.add(OPNAME[o])
    missing = sorted(n for n in want_names if not per_op.get(n))
    if missing:
        rep.inconclusive.append("operations never executed: %s" % ",".join(missing))
    if exh_variants and exh_total == 0:
        rep.inconclusive.append("exhaustive sub-domain did not run")
    if not exh_variants:
        rep.inconclusive.append("no 8-bit plain build for the exhaustive sub-domain")
    return rep.finish()


def _dispatch(t):
    kind, job = t
    return work_exh(job) if kind == "exh" else work_chunk(job)


def replay(path):
    with open(path) as fh:
        doc = json.load(fh)
    wtn = doc["witness"]
    v = dict(wtn["variant"])
    v.setdefault("light", False)
    v.setdefault("extra", [])
    try:
        exe = common.build(**build_kwargs(v))
    except common.BuildError as e:
        print("INCONCLUSIVE property=%s replay build failed: %s" % (PROP, e))
        return 2
    print("replay key=%s variant=%s" % (doc.get("key"), variant_name(v)))
    if "exh_args" in wtn:
        p = subprocess.run([exe] + wtn["exh_args"], stdout=subprocess.PIPE, stderr=subprocess.PIPE,
                           env=common.run_env(SOFT_ENV))
        print(p.stdout.decode())
        bad = any(int(ln.split()[3]) for ln in p.stdout.decode().splitlines() if len(ln.split()) > 3)
        print("recorded first mismatch:", wtn.get("first"))
        return 1 if (bad or p.returncode != 0) else 0
    c = Case.from_json(wtn["case"])
    exp = expect(c, v["w"], v["L"])
    print("case: %s operands=%s slots=%s x=%s digit=%s flags=%d buf=%s" % (
        c.name(), [(cap, hex(val)) for cap, val in c.ops], c.slots, c.x, hex(c.dg), c.flags, c.buf[:64]))
    print("expected: region=%s label=%s outputs=%s" % (exp.region, exp.label,
                                                       {k: hex(x) for k, x in exp.outs.items()}))
    results, text = run_cases_ex(exe, [c.encode()], SOFT_ENV)
    part = common.new_part()
    res = results[0] if results else common.Crash("exit", "no result", None)
    if isinstance(res, common.Crash):
        print("observed: %r\n%s" % (res, (res.report or "")[-1500:]))
    else:
        r = PR(res)
        r.u8()
        o = parse_run(r.blob(), c, v["w"])
        print("observed: rc=%s operands=%s carry=%s size_ret=%s out=%s" % (
            o["rc"], [(b["count"], b["digits"], hex(b["value"])) for b in o.get("bn", [])], o.get("carry"),
            o.get("szret"), bytes(o.get("obuf", []))[:64].hex()))
    evaluate(c, v, res, part)
    for k, _ in part["violations"]:
        print("reproduced: " + k)
    if part["inconclusive"]:
        print("INCONCLUSIVE property=%s %s" % (PROP, part["inconclusive"][0]))
        return 2
    return 1 if part["violations"] else 0
