"""C17 - the INI store behaves like an ordered map and survives a text round trip.

Harness: a case is a HISTORY of operations on one store (parse of a text chunk, set /
set_int / set_uint, get / get_int / get_uint case-sensitive and case-insensitive, the
offset-level find functions, enumeration, calc_size + generation into buffers of sizes
0 .. size+1).  The driver (drivers/c17_ini.c) executes one operation per protocol case on
a persistent store and emits an observation after EVERY operation (return code, the
complete enumeration of the store through ini_sect_enum / ini_sect_val_enum after each
mutating operation, returned values, generation results).  The Python model
(verif/oracles/inimodel.py: ordered list of classified text lines) is advanced in
lock-step and compared after every operation.
"""
import json
import re

from verif import common
from verif.common import W, R, Rng, Crash
from verif.oracles.inimodel import IniModel, lower, split_lines

PROP = "C17"
REPO_SRC = ["src/utils/ini.c", "src/utils/buf_str.c"]
DRIVER = ["c17_ini.c"]

OPC = {"reset": 0, "parse": 1, "set": 2, "set_int": 3, "set_uint": 4, "get": 5, "get_int": 6,
       "get_uint": 7, "dump": 8, "gen": 9, "find": 10}
ENTRY = {"parse": "ini_buf_parse", "set": "ini_val_set", "set_int": "ini_val_set_int",
         "set_uint": "ini_val_set_uint", "dump": "ini_sect_enum", "gen": "ini_buf_gen",
         "reset": "ini_create"}
MUTATING = ("parse", "set", "set_int", "set_uint")
ENOENT = 2

SSIZE_MAX = (1 << 63) - 1
SSIZE_MIN = -(1 << 63)
U64_MAX = (1 << 64) - 1
CANON_INT = re.compile(rb"^(0|-?[1-9][0-9]*)$")


def B(s):
    return s.encode("latin-1")


def S(b):
    return b.decode("latin-1")


# ----------------------------------------------------------------------------
# operation encoding / observation decoding
# ----------------------------------------------------------------------------
def encode_op(op):
    k = op["op"]
    w = W().u8(OPC[k])
    if k == "parse":
        w.blob(B(op["text"]))
    elif k in ("set", "set_int", "set_uint"):
        w.u8(op.get("fl", 0)).blob(B(op["sect"])).blob(B(op["key"]))
        if k == "set":
            w.blob(B(op["val"]))
        elif k == "set_int":
            w.i64(op["num"])
        else:
            w.u64(op["num"])
    elif k in ("get", "get_int", "get_uint"):
        w.u8(1 if op["ci"] else 0).u8(op.get("fl", 0)).blob(B(op["sect"])).blob(B(op["key"]))
    elif k == "find":
        w.u8(1 if op["cis"] else 0).u8(1 if op["cik"] else 0).blob(B(op["sect"])).blob(B(op["key"]))
    elif k == "gen":
        if op.get("all"):
            w.u8(1).u32(0)
        else:
            w.u8(0).u32(len(op["sizes"]))
            for rel, kk in op["sizes"]:
                w.u8(rel).u32(kk)
    return w.done()


def read_dump(r):
    out = []
    for _ in range(r.u32()):
        name = r.blob()
        kv = []
        for _ in range(r.u32()):
            k = r.blob()
            v = r.blob()
            kv.append((k, v))
        out.append((name, kv))
    return out


def decode_obs(op, raw):
    """-> dict; raises ValueError when the observation does not belong to this op"""
    r = R(raw)
    code = r.u8()
    if code == 0xFF:
        return {"skipped": True}
    k = op["op"]
    if code != OPC[k]:
        raise ValueError("observation of op %d for %s" % (code, k))
    o = {}
    if k == "reset":
        o["rc"] = r.i32()
    elif k in MUTATING:
        o["rc"] = r.i32()
        o["dump"] = read_dump(r)
    elif k == "get":
        o["rc"] = r.i32()
        o["val"] = r.blob()
    elif k == "get_int":
        o["rc"] = r.i32()
        o["num"] = r.i64()
    elif k == "get_uint":
        o["rc"] = r.i32()
        o["num"] = r.u64()
    elif k == "dump":
        o["dump"] = read_dump(r)
    elif k == "find":
        o["sfound"] = r.u8()
        o["vfound"] = 0
        if o["sfound"]:
            o["sname"] = r.blob()
            o["vfound"] = r.u8()
            if o["vfound"]:
                o["vname"] = r.blob()
                o["vval"] = r.blob()
    elif k == "gen":
        o["calc_rc"] = r.i32()
        o["size"] = r.u64()
        o["res"] = []
        for _ in range(r.u32()):
            n = r.u64()
            rc = r.i32()
            ret = r.u64()
            past = r.u32()
            exact = r.u8()
            o["res"].append((n, rc, ret, past, exact))
        o["text"] = None
        if not r.eof() and r.u8():
            o["text"] = r.blob()
            o["reparse_rc"] = r.i32()
            o["reparse_dump"] = read_dump(r)
    return o


def show_dump(d):
    return [[S(s), [[S(k), S(v)] for k, v in kv]] for s, kv in d]


# ----------------------------------------------------------------------------
# judging one history
# ----------------------------------------------------------------------------
class AllocMirror:
    """White-box mirror of data_allocated_size, used ONLY to aim value sizes at the
    padding boundary and to name evidence classes; never used to judge."""
    PAD = 16

    def __init__(self):
        self.a = {}

    def note_parse(self, model_before_len, model):
        cur = None
        for i, l in enumerate(model.lines):
            if l[0] == "section":
                cur = l[1]
            elif l[0] == "kv" and i >= model_before_len:
                self.a[(cur, l[1])] = len(l[1]) + 1 + len(l[2]) + self.PAD

    def classify_set(self, sect, key, oldval, newval):
        ds = len(key) + 1 + len(newval)
        if oldval is None:
            self.a[(sect, key)] = ds + self.PAD
            return "new-empty" if not newval else "new"
        a = self.a.get((sect, key), len(key) + 1 + len(oldval) + self.PAD)
        if a > ds:
            if len(newval) == len(oldval):
                c = "same-size"
            elif len(newval) < len(oldval):
                c = "shrink-to-empty" if not newval else "shrink"
            else:
                c = "grow-inplace-from-empty" if not oldval else "grow-inplace"
            if a == ds + 1:
                c += "-edge"
        else:
            c = "grow-realloc-edge" if a == ds else "grow-realloc"
            a = ds + self.PAD
        self.a[(sect, key)] = a
        return c

    def alloc(self, sect, key, cur_len):
        return self.a.get((sect, key), cur_len + self.PAD)


def other_case_values(m, sect, key):
    out = set()
    for s_, kv in m.dump():
        if s_ == sect:
            for k_, v_ in kv:
                if k_ != key and lower(k_) == lower(key):
                    out.add(v_)
            break
    return out


def int_text(kind, num):
    return B(str(num))


def judge_history(ops, results, classes=None, counters=None):
    """Walk ops/results with a fresh model.  Returns list of violations
    (key, op index, expected, observed).  Stops at the first violation of a mutating
    operation (model and store are no longer comparable after it) and at a crash."""
    viol = []
    m = IniModel()
    mirror = AllocMirror()

    def cls(*c):
        if classes is not None:
            classes.add(c)

    def cnt(name):
        if counters is not None:
            counters[name] = counters.get(name, 0) + 1

    for i, op in enumerate(ops):
        k = op["op"]
        res = results[i] if i < len(results) else None
        if res is None:
            break
        if isinstance(res, Crash):
            viol.append(("CRASH", i, None, res))
            break
        try:
            o = decode_obs(op, res)
        except (ValueError, IndexError, Exception) as e:  # malformed observation = harness fault
            viol.append(("HARNESS", i, None, "bad observation: %r" % (e,)))
            break
        if o.get("skipped"):
            break
        cnt("op_" + k)
        if k == "reset":
            if o["rc"] != 0:
                viol.append(("oracle:ini_create:rc", i, 0, o["rc"]))
                break
            continue
        fn = ENTRY.get(k, k)
        if k in MUTATING:
            before = m.copy()
            nlines = len(m.lines)
            if k == "parse":
                m.parse(B(op["text"]))
                mirror.note_parse(nlines, m)
                sizeclass = "lines%d" % min(len(m.lines) - nlines, 4)
                srel = krel = "-"
            else:
                sect, key = B(op["sect"]), B(op["key"])
                val = B(op["val"]) if k == "set" else int_text(k, op["num"])
                srel, krel = before.name_relation(sect, key)
                g = before.get(sect, key, False)
                oldval = g[1] if g[0] == "found" else None
                m.set(sect, key, val)
                sizeclass = mirror.classify_set(sect, key, oldval, val)
                if op.get("fl"):
                    sizeclass += "+strlenform"
            if o["rc"] != 0:
                viol.append(("oracle:%s:rc" % fn, i, 0, o["rc"]))
                cls(k, srel, krel, sizeclass, "rc-error")
                break
            if o["dump"] != m.dump():
                detail = "store-mismatch"
                if k != "parse":
                    alt = before.copy()
                    alt.set(sect, key, val, ci_keys=True)
                    if o["dump"] == alt.dump():
                        detail = "other-case-key-replaced"
                    elif k in ("set_int", "set_uint"):
                        # same shape, only the text of this number differs?
                        n = op["num"]
                        got = None
                        md, od = m.dump(), o["dump"]
                        if [(s_, [k_ for k_, _ in kv]) for s_, kv in md] == [(s_, [k_ for k_, _ in kv]) for s_, kv in od]:
                            diffs = [(s_, a[0], b[1]) for (s_, kv), (_, kv2) in zip(md, od)
                                     for a, b in zip(kv, kv2) if a[1] != b[1]]
                            if len(diffs) == 1 and diffs[0][0] == sect and diffs[0][1] == key:
                                got = diffs[0][2]
                        if got is not None:
                            digits = str(abs(n))
                            if n == SSIZE_MIN:
                                detail = "wrong-text:ssize-min"
                            elif n != 0 and digits.strip("0") == "1" and len(digits) > 1 and \
                                    got in (B(digits), B(digits[1:])):
                                detail = "wrong-text:pow10"    # sign / leading digit overwritten
                            else:
                                detail = "wrong-text:other"
                viol.append(("oracle:%s:%s" % (fn, detail), i, show_dump(m.dump()), show_dump(o["dump"])))
                cls(k, srel, krel, sizeclass, detail)
                break
            cls(k, srel, krel, sizeclass, "ok")
            continue
        if k == "dump":
            if o["dump"] != m.dump():
                viol.append(("oracle:ini_sect_enum:order-mismatch", i, show_dump(m.dump()), show_dump(o["dump"])))
            cls(k, "-", "-", "sect%d" % min(len(m.dump()), 4), "ok")
            continue
        if k in ("get", "get_int", "get_uint"):
            sect, key, ci = B(op["sect"]), B(op["key"]), bool(op["ci"])
            fn = {"get": "ini_val%s_get", "get_int": "ini_val%s_get_int", "get_uint": "ini_val%s_get_uint"}[k] % (
                "i" if ci else "")
            srel, krel = m.name_relation(sect, key)
            exp = m.get(sect, key, ci)
            civ = m.get(sect, key, True)
            outcome = "ok"
            if exp[0] == "absent":
                if o["rc"] == 0:
                    other = (civ[0] == "found") or (civ[0] == "ambiguous")
                    if not ci and other:
                        outcome = "found-other-case-key" if srel == "exact" else "found-other-case-section"
                    else:
                        outcome = "found-absent"
                    viol.append(("oracle:%s:%s" % (fn, outcome), i, "not found (ENOENT)",
                                 {"rc": 0, "val": S(o.get("val", b"")) if k == "get" else o.get("num")}))
                elif o["rc"] != ENOENT:
                    outcome = "rc-not-enoent"   # any non-zero is "not found"; noted only
            elif exp[0] == "found":
                val = exp[1]
                if o["rc"] != 0:
                    outcome = "not-found"
                    viol.append(("oracle:%s:not-found" % fn, i, S(val), {"rc": o["rc"]}))
                elif k == "get":
                    if o["val"] != val:
                        outcome = "wrong-value"
                        if not ci and krel == "both" and o["val"] in other_case_values(m, sect, key):
                            outcome = "returned-other-case-key"
                        viol.append(("oracle:%s:%s" % (fn, outcome), i, S(val), S(o["val"])))
                else:
                    if CANON_INT.match(val):
                        n = int(val)
                        ok_range = (-SSIZE_MAX <= n <= SSIZE_MAX) if k == "get_int" else (0 <= n <= U64_MAX)
                        if ok_range and o["num"] != n:
                            outcome = "wrong-number"
                            if not ci and krel == "both":
                                outcome = "returned-other-case-key"   # a key differing only in case shadows it
                            viol.append(("oracle:%s:%s" % (fn, outcome), i, n, o["num"]))
                    else:
                        outcome = "unjudged-noncanonical-number"
            else:  # ambiguous (several candidates ignoring case): any candidate is accepted
                outcome = "ambiguous"
                if o["rc"] == 0:
                    if k == "get" and o["val"] not in exp[1]:
                        outcome = "wrong-value"
                        viol.append(("oracle:%s:wrong-value" % fn, i, sorted(S(x) for x in exp[1]), S(o["val"])))
                elif not exp[2]:
                    outcome = "not-found"
                    viol.append(("oracle:%s:not-found" % fn, i, sorted(S(x) for x in exp[1]), {"rc": o["rc"]}))
            cls(k, "ci" if ci else "cs", srel, krel, outcome)
            continue
        if k == "find":
            sect, key = B(op["sect"]), B(op["key"])
            cis, cik = bool(op["cis"]), bool(op["cik"])
            d = m.dump()
            cand = [(s, kv) for s, kv in d if (lower(s) == lower(sect) if cis else s == sect)]
            sfn = "ini_sect_findi" if cis else "ini_sect_find"
            vfn = "ini_sect_val_findi" if cik else "ini_sect_val_find"
            outcome = "ok"
            if not cand:
                if o["sfound"]:
                    outcome = "sect-found-absent"
                    viol.append(("oracle:%s:found-absent" % sfn, i, "not found", S(o.get("sname", b""))))
            elif not o["sfound"]:
                outcome = "sect-not-found"
                viol.append(("oracle:%s:not-found" % sfn, i, S(cand[0][0]), "not found"))
            elif o["sname"] not in [s for s, _ in cand]:
                outcome = "sect-wrong"
                viol.append(("oracle:%s:wrong-section" % sfn, i, [S(s) for s, _ in cand], S(o["sname"])))
            else:
                kv = [x for s, x in cand if s == o["sname"]][0]
                want = [(a, b) for a, b in kv if (lower(a) == lower(key) if cik else a == key)]
                if not want:
                    if o["vfound"]:
                        oc = any(lower(a) == lower(key) for a, _ in kv)
                        outcome = "found-other-case-key" if (oc and not cik) else "found-absent"
                        viol.append(("oracle:%s:%s" % (vfn, outcome), i, "not found",
                                     [S(o["vname"]), S(o["vval"])]))
                elif not o["vfound"]:
                    outcome = "not-found"
                    viol.append(("oracle:%s:not-found" % vfn, i, [[S(a), S(b)] for a, b in want], "not found"))
                elif (o["vname"], o["vval"]) not in want:
                    outcome = "wrong-entry"
                    if not cik and o["vname"] != key and lower(o["vname"]) == lower(key):
                        outcome = "returned-other-case-key"
                    viol.append(("oracle:%s:%s" % (vfn, outcome), i, [[S(a), S(b)] for a, b in want],
                                 [S(o["vname"]), S(o["vval"])]))
            cls(k, "ci" if cis else "cs", "ci" if cik else "cs", outcome)
            continue
        if k == "gen":
            size = m.text_size()
            geo = "empty" if size == 0 else "1line" if len(m.lines) == 1 else "multi"
            if o["calc_rc"] != 0 or o["size"] != size:
                viol.append(("oracle:ini_buf_calc_size:size-mismatch", i, size,
                             {"rc": o["calc_rc"], "size": o["size"]}))
                cls(k, geo, "calc-mismatch")
                continue
            flagged = set()
            for (n, rc, ret, past, exact) in o["res"]:
                rel = "smaller" if n < size else "equal" if n == size else "larger"
                oc = "ok"
                if past:
                    oc = "wrote-past"
                    key = "bounds:ini_buf_gen:wrote-past-%s-buffer" % rel
                    if key not in flagged:
                        flagged.add(key)
                        viol.append((key, i, "no byte written at or after offset %d (store is %d bytes)" % (n, size),
                                     {"buf_size": n, "rc": rc, "size_ret": ret, "bytes_modified_past_end": past}))
                elif n < size:
                    if rc == 0:
                        oc = "returned-0"
                        key = "oracle:ini_buf_gen:smaller-buffer-returned-0"
                        if key not in flagged:
                            flagged.add(key)
                            viol.append((key, i, "non-zero return for a %d byte buffer (store is %d bytes)" % (n, size),
                                         {"buf_size": n, "rc": rc, "size_ret": ret}))
                    else:
                        oc = "refused"
                elif n > 0:
                    if rc != 0:
                        oc = "full-refused"
                        key = "oracle:ini_buf_gen:sufficient-buffer-refused"
                        if key not in flagged:
                            flagged.add(key)
                            viol.append((key, i, "rc 0, %d bytes" % size, {"buf_size": n, "rc": rc, "size_ret": ret}))
                    elif ret != size:
                        oc = "size-ret-mismatch"
                        key = "oracle:ini_buf_gen:written-differs-from-calc-size"
                        if key not in flagged:
                            flagged.add(key)
                            viol.append((key, i, size, {"buf_size": n, "rc": rc, "size_ret": ret}))
                cls(k, geo, rel, "edge" if abs(n - size) <= 1 or n <= 1 else "far", oc)
            if o["text"] is not None:
                cnt("gen_full_text")
                t = IniModel()
                t.parse(o["text"])
                if len(o["text"]) != size:
                    viol.append(("oracle:ini_buf_gen:written-differs-from-calc-size", i, size, len(o["text"])))
                elif not t.equivalent(m):
                    viol.append(("oracle:ini_buf_gen:text-not-equivalent", i, [S(x) for x in m.raw_lines()],
                                 S(o["text"])))
                elif o["reparse_rc"] != 0 or o["reparse_dump"] != m.dump():
                    viol.append(("oracle:ini_buf_parse:reparse-not-equivalent", i, show_dump(m.dump()),
                                 {"rc": o["reparse_rc"], "dump": show_dump(o["reparse_dump"])}))
                else:
                    cls(k, geo, "roundtrip-ok")
            continue
    return viol


# ----------------------------------------------------------------------------
# history generation
# ----------------------------------------------------------------------------
SECT_BASES = ["main", "net", "s", "a.b", "log file", "x]y", "opt"]
KEY_BASES = ["key", "k", "name", "x1", "path to", "v", "long_key_name_for_padding"]
VAL_ALPHA = "abcdefXYZ0189 =;#[]._-/:\"'"
INT_VALS = [0, 1, -1, 9, -9, 11, -11, 99, 101, -101, 255, 65535, 2147483647, -2147483648,
            4294967296, SSIZE_MAX, -SSIZE_MAX, 12345678901234567]
UINT_VALS = [0, 1, 9, 11, 99, 101, 65536, 4294967295, 4294967296, SSIZE_MAX, SSIZE_MAX + 1, U64_MAX,
             U64_MAX - 1, 9999999999999999999]
POW10_INT = [10 ** e for e in range(1, 19)] + [-(10 ** e) for e in range(1, 19)]
POW10_UINT = [10 ** e for e in range(1, 20)]


def variants(base):
    out = []
    for v in (base.lower(), base.upper(), base.capitalize()):
        if v not in out:
            out.append(v)
    return out


def rand_val(rng, n):
    return "".join(VAL_ALPHA[rng.below(len(VAL_ALPHA))] for _ in range(n))


def gen_history(rng, family):
    """family: 'canon' (sets/parses never create two keys of one section that differ only in
    case), 'collide' (they do), 'intfam' (short; integer setters incl. powers of ten and the
    type minimum)."""
    gm = IniModel()
    mirror = AllocMirror()
    ops = [{"op": "reset"}]
    sb = list(SECT_BASES)
    kb = list(KEY_BASES)
    rng.shuffle(sb)
    rng.shuffle(kb)
    sb = sb[:rng.range(1, 4)]
    kb = kb[:rng.range(2, 5)]
    snames = [v for b in sb for v in variants(b)]
    knames = [v for b in kb for v in variants(b)]
    if family == "intfam":
        nops = rng.range(6, 30)
    else:
        nops = rng.choice([rng.range(20, 60), rng.range(20, 60), rng.range(60, 150), rng.range(150, 400)])
    collide = family == "collide"

    def pick_key_for(sect, want_new=False):
        """a key name usable in a mutating op on section `sect` under the family's rule"""
        name = rng.choice(knames)
        if collide:
            return name
        for s, kv in gm.dump():
            if s == sect:
                for k, _ in kv:
                    if lower(B(name)) == lower(k):
                        return S(k)
        return name

    def new_value_for(sect, key):
        g = gm.get(B(sect), B(key), False)
        if g[0] == "found":
            cur = len(key) + 1 + len(g[1])
            a = mirror.alloc(B(sect), B(key), cur)
            target = rng.choice([a - 2, a - 1, a, a + 1, a + 2, a + 17, len(key) + 1, len(key) + 2,
                                 cur, cur - 1, cur + 1, rng.range(0, 60), rng.range(0, 220)])
            vl = max(0, target - len(key) - 1)
        else:
            vl = rng.choice([0, 0, 1, 2, rng.range(0, 12), rng.range(0, 40), rng.range(0, 200)])
        return rand_val(rng, min(vl, 600))

    def do_set(op):
        sect, key = B(op["sect"]), B(op["key"])
        val = B(op["val"]) if op["op"] == "set" else B(str(op["num"]))
        g = gm.get(sect, key, False)
        gm.set(sect, key, val)
        mirror.classify_set(sect, key, g[1] if g[0] == "found" else None, val)
        ops.append(op)

    def gen_parse():
        d = gm.dump()
        existing = set(s for s, _ in d)
        cur = d[-1][0] if d else None
        curkeys = set(k for k, _ in d[-1][1]) if d else set()
        gkeys = set()
        lines = []
        for _ in range(rng.range(1, 7)):
            x = rng.below(100)
            if x < 45:
                if cur is None and not rng.chance(1, 8):
                    x = 50
                else:
                    name = B(rng.choice(knames))
                    pool = curkeys if cur is not None else gkeys
                    if name in pool:
                        continue
                    if not collide and lower(name) in set(lower(k) for k in pool):
                        continue
                    pool.add(name)
                    vl = rng.choice([0, 1, rng.range(0, 10), rng.range(0, 40), rng.range(0, 120)])
                    if rng.chance(1, 6):
                        v = str(rng.choice(INT_VALS + UINT_VALS))
                    else:
                        v = rand_val(rng, vl)
                    lines.append(S(name) + "=" + v)
                    continue
            if x < 65:
                cands = [s for s in snames if B(s) not in existing]
                if rng.chance(1, 5):
                    cands.append("sec%d" % rng.below(1000))
                cands = [s for s in cands if B(s) not in existing]
                if not cands:
                    continue
                s = rng.choice(cands)
                existing.add(B(s))
                cur = B(s)
                curkeys = set()
                lines.append("[" + s + "]")
            elif x < 80:
                lines.append("")
            elif x < 90:
                lines.append(rng.choice([";", "#"]) + rand_val(rng, rng.range(0, 20)))
            else:
                lines.append(rng.choice(["junk line", " [x]", "[unclosed", "noequals", "  ", "]"]))
        if not lines:
            lines = [""]
        eol = rng.choice(["\n", "\r\n"])
        mixed = rng.chance(1, 5)
        text = ""
        for j, l in enumerate(lines):
            e = rng.choice(["\n", "\r\n"]) if mixed else eol
            if j == len(lines) - 1 and rng.chance(1, 5) and l != "":
                e = ""
            text += l + e
        n0 = len(gm.lines)
        gm.parse(B(text))
        mirror.note_parse(n0, gm)
        ops.append({"op": "parse", "text": text})

    def pick_lookup():
        """(sect, key) for a read-only lookup: any case variant, sometimes unknown names"""
        d = gm.dump()
        r = rng.below(10)
        if d and r < 7:
            s, kv = rng.choice(d)
            sect = S(s)
            if rng.chance(1, 3):
                sect = rng.choice(variants(sect))
            if kv and rng.chance(4, 5):
                key = S(rng.choice(kv)[0])
                if rng.chance(1, 2):
                    key = rng.choice(variants(key))
            else:
                key = rng.choice(knames)
            return sect, key
        return rng.choice(snames + ["nosuch"]), rng.choice(knames + ["nosuch"])

    def gen_sizes():
        size = gm.text_size()
        if size <= 300 and rng.chance(1, 2):
            return {"op": "gen", "all": 1}
        sizes = [(0, 0), (0, 1), (0, 2), (1, 0), (1, 1), (1, 2), (2, 1)]
        acc = 0
        for l in gm.raw_lines()[:6]:
            acc += len(l) + 2
            sizes += [(0, max(acc - 1, 0)), (0, acc), (0, acc + 1)]
        ml = max([len(l) + 2 for l in gm.raw_lines()] or [0])
        sizes += [(0, max(ml - 1, 0)), (0, ml), (0, ml + 1)]
        for _ in range(6):
            sizes.append((0, rng.range(0, size + 1)))
        seen = []
        for s in sizes:
            if s not in seen:
                seen.append(s)
        return {"op": "gen", "sizes": [list(s) for s in seen]}

    if family != "intfam" and rng.chance(3, 4):
        gen_parse()
    for _ in range(nops):
        x = rng.below(100)
        fl = rng.choice([0, 0, 0, 0, 0, 0, 1, 2, 3])
        if family == "intfam":
            x = rng.choice([40, 40, 40, 55, 75, 92, 99, 5])
        if x < 8:
            gen_parse()
        elif x < 40:
            d = gm.dump()
            if d and rng.chance(4, 5):
                sect = S(rng.choice(d)[0])
            else:
                sect = rng.choice(snames)
            key = pick_key_for(B(sect))
            do_set({"op": "set", "fl": fl, "sect": sect, "key": key, "val": new_value_for(sect, key)})
        elif x < 48:
            d = gm.dump()
            sect = S(rng.choice(d)[0]) if d and rng.chance(3, 4) else rng.choice(snames)
            key = pick_key_for(B(sect))
            if rng.chance(1, 2):
                pool = INT_VALS + (POW10_INT + [SSIZE_MIN] * 3 if family == "intfam" else [])
                do_set({"op": "set_int", "fl": fl, "sect": sect, "key": key, "num": rng.choice(pool)})
            else:
                pool = UINT_VALS + (POW10_UINT if family == "intfam" else [])
                do_set({"op": "set_uint", "fl": fl, "sect": sect, "key": key, "num": rng.choice(pool)})
        elif x < 72:
            sect, key = pick_lookup()
            ops.append({"op": "get", "ci": rng.below(2), "fl": fl, "sect": sect, "key": key})
        elif x < 78:
            sect, key = pick_lookup()
            kind = rng.choice(["get_int", "get_uint"])
            # calling discipline: the number parsers are not asked to convert digit strings
            # that cannot be represented (signed overflow inside ustr2ssize is UB)
            digits = 0
            for cand in (gm.get(B(sect), B(key), True), gm.get(B(sect), B(key), False)):
                vals = [cand[1]] if cand[0] == "found" else list(cand[1]) if cand[0] == "ambiguous" else []
                for v in vals:
                    digits = max(digits, sum(1 for c in v if 48 <= c <= 57))
            if digits <= (18 if kind == "get_int" else 19):
                ops.append({"op": kind, "ci": rng.below(2), "fl": fl, "sect": sect, "key": key})
        elif x < 84:
            sect, key = pick_lookup()
            ops.append({"op": "find", "cis": rng.below(2), "cik": rng.below(2), "sect": sect, "key": key})
        elif x < 94:
            ops.append(gen_sizes())
        else:
            ops.append({"op": "dump"})
    if family != "intfam":
        ops.append(gen_sizes())
    return ops


def directed_histories():
    """hand-written short histories run in every tier (worker 0): the situations DESIGN names"""
    g = lambda k, sect, key, ci=0: {"op": k, "ci": ci, "fl": 0, "sect": sect, "key": key}
    f = lambda sect, key, cis=0, cik=0: {"op": "find", "cis": cis, "cik": cik, "sect": sect, "key": key}
    out = []
    both = {"op": "parse", "text": "[S]\nKey=1\nKEY=2\n"}
    one = {"op": "parse", "text": "[S]\nKey=7\n\n[T]\nx=\n"}
    out.append([{"op": "reset"}, both, g("get", "S", "KEY"), g("get_int", "S", "KEY"), g("get_uint", "S", "KEY"),
                f("S", "KEY"), g("get", "S", "key", 1), g("get", "s", "KEY"), g("get", "s", "KEY", 1), {"op": "dump"},
                {"op": "gen", "all": 1}])
    out.append([{"op": "reset"}, one, g("get", "S", "KEY"), g("get_int", "S", "KEY"), g("get_uint", "S", "KEY"),
                f("S", "KEY"), f("s", "KEY", 1, 1), g("get", "S", "Key"), g("get", "s", "Key"), g("get", "T", "x"),
                {"op": "gen", "all": 1}, {"op": "set", "fl": 0, "sect": "S", "key": "KEY", "val": "v"}])
    out.append([{"op": "reset"}, one, {"op": "set_int", "fl": 0, "sect": "S", "key": "KEY", "num": 5}])
    out.append([{"op": "reset"}, one, {"op": "set_uint", "fl": 0, "sect": "S", "key": "KEY", "num": 5}])
    # new key into a section followed by blank lines and another section; grow/shrink around the padding
    h = [{"op": "reset"}, one, {"op": "set", "fl": 0, "sect": "S", "key": "n", "val": "1"}, {"op": "dump"}]
    for ln in (0, 13, 14, 15, 16, 17, 40, 15, 0, 200, 1):
        h.append({"op": "set", "fl": 0, "sect": "S", "key": "n", "val": "v" * ln})
        h.append(g("get", "S", "n"))
    h.append({"op": "gen", "all": 1})
    out.append(h)
    for n in (-10, 10, SSIZE_MIN, SSIZE_MAX, 0):
        out.append([{"op": "reset"}, {"op": "set_int", "fl": 0, "sect": "S", "key": "n", "num": n}, g("get_int", "S", "n")])
    for n in (10, 9, U64_MAX, 10 ** 19):
        out.append([{"op": "reset"}, {"op": "set_uint", "fl": 0, "sect": "S", "key": "n", "num": n}, g("get_uint", "S", "n")])
    return out


# ----------------------------------------------------------------------------
# running
# ----------------------------------------------------------------------------
def build_specs(tier):
    specs = [("asu-gcc", dict(name="c17_asu_gcc", sources=DRIVER, san="asu", cc="gcc", repo_sources=REPO_SRC)),
             ("plain-gcc", dict(name="c17_plain_gcc", sources=DRIVER, san="plain", cc="gcc", flags=["-O1", "-g"],
                                repo_sources=REPO_SRC))]
    if tier == "thorough":
        specs.append(("asu-clang", dict(name="c17_asu_clang", sources=DRIVER, san="asu", cc="clang",
                                        repo_sources=REPO_SRC)))
    return specs


def run_history(exe, ops, args=()):
    return common.run_cases(exe, [encode_op(o) for o in ops], args=args)


def key_of_crash(crash, op):
    entry = ENTRY.get(op["op"])
    if entry is None:
        k = op["op"]
        ci = "i" if op.get("ci") else ""
        entry = {"get": "ini_val%s_get" % ci, "get_int": "ini_val%s_get_int" % ci,
                 "get_uint": "ini_val%s_get_uint" % ci, "find": "ini_sect_val_find"}.get(k, k)
    return common.crash_key(crash, entry)


def is_benign_ubsan(crash):
    if crash.kind != "ubsan":
        return False
    m = re.search(r"runtime error: ([^\n]*)", crash.report or "")
    if not m:
        return False
    t = m.group(1)
    return ("signed integer overflow" in t or "negation of" in t or "shift" in t or "misaligned" in t)


def evaluate(variant, exes, ops, classes=None, counters=None, observations=None):
    """Run one history in `variant`; returns list of (key, idx, expected, observed, variant)."""
    res = run_history(exes[variant], ops)
    viol = judge_history(ops, res, classes, counters)
    out = []
    for key, idx, exp, obs in viol:
        if key == "CRASH":
            crash = obs
            ck = key_of_crash(crash, ops[idx])
            if is_benign_ubsan(crash) and "plain-gcc" in exes and variant != "plain-gcc":
                # UBSan kinds that do not leave the object do not decide; the outputs of the
                # plain build do (DESIGN 3.1).  The report is kept as an observation.
                if observations is not None:
                    observations[ck] = observations.get(ck, 0) + 1
                sub = evaluate("plain-gcc", exes, ops, None, None, observations)
                for v in sub:
                    v = list(v)
                    if isinstance(v[3], dict):
                        v[3] = dict(v[3])
                        v[3]["ubsan_report_in_%s" % variant] = (crash.report or "")[:1500]
                    out.append(tuple(v))
                continue
            out.append((ck, idx, "no sanitizer report / abnormal exit",
                        {"kind": crash.kind, "rc": crash.returncode, "report": (crash.report or "")[-3500:]}, variant))
        elif key == "HARNESS":
            out.append(("harness:c17:bad-observation", idx, exp, obs, variant))
        else:
            out.append((key, idx, exp, obs, variant))
    return out


def worker(job):
    exes, variant, widx, plan, tier = job
    part = common.new_part()
    hists = []
    for fam, n in plan:
        for j in range(n):
            r = Rng(PROP, common.seed(), variant, widx, fam, j)
            hists.append((fam, j, gen_history(r, fam)))
    if widx == 0:
        for j, ops in enumerate(directed_histories()):
            hists.append(("directed", j, ops))
    # run all histories of this worker through ONE driver process (restarted on crashes)
    cases = []
    for fam, j, ops in hists:
        cases += [encode_op(o) for o in ops]
    results = common.run_cases(exes[variant], cases)
    pos = 0
    counters = part["counters"]
    for fam, j, ops in hists:
        res = results[pos:pos + len(ops)]
        pos += len(ops)
        part["evaluations"] += 1
        common.part_count(part, "operations", len(ops))
        common.part_count(part, "histories_" + fam)
        classes = set()
        viol = judge_history(ops, res, classes, counters)
        final = []
        for key, idx, exp, obs in viol:
            if key == "CRASH" and is_benign_ubsan(obs) and variant != "plain-gcc":
                # re-judge the whole history by its outputs in the plain build
                final += evaluate(variant, exes, ops, None, None, part["observations"])
                break
            if key == "CRASH":
                final.append((key_of_crash(obs, ops[idx]), idx, "no sanitizer report / abnormal exit",
                              {"kind": obs.kind, "rc": obs.returncode, "report": (obs.report or "")[-3500:]}, variant))
            elif key == "HARNESS":
                part["inconclusive"].append("bad observation in history %s/%d/%d op %d: %s" % (fam, widx, j, idx, obs))
            else:
                final.append((key, idx, exp, obs, variant))
        part["classes"].update(classes)
        for key, idx, exp, obs, var in final:
            part["violations"].append((key, {
                "variant": var, "family": fam, "worker": widx, "history_index": j,
                "failing_op_index": idx, "failing_op": ops[idx], "history": ops[:idx + 1],
                "expected": exp, "observed": obs, "minimised": False}))
        if j < 1 and widx < 6:
            part["samples"].append({"family": fam, "history": ops[:40], "ops_total": len(ops)})
    return part


# ----------------------------------------------------------------------------
# minimisation (delta debugging over operations)
# ----------------------------------------------------------------------------
def still_fails(exes, variant, ops, key):
    for v in evaluate(variant, exes, ops):
        if v[0] == key:
            return v
    return None


def minimise(exes, variant, ops, key, budget=400):
    """ddmin by dropping operations (the leading reset stays).  Returns (ops, violation)."""
    cur = ops
    best = still_fails(exes, variant, cur, key)
    if best is None:
        return ops, None
    cur = cur[:best[1] + 1]
    n = 2
    runs = 0
    while len(cur) > 2 and runs < budget:
        body = cur[1:]
        chunk = max(1, len(body) // n)
        reduced = False
        for start in range(0, len(body), chunk):
            cand = [cur[0]] + body[:start] + body[start + chunk:]
            if len(cand) < 2:
                continue
            runs += 1
            v = still_fails(exes, variant, cand, key)
            if v is not None:
                cur = cand[:v[1] + 1]
                best = v
                n = max(n - 1, 2)
                reduced = True
                break
            if runs >= budget:
                break
        if not reduced:
            if chunk == 1:
                break
            n = min(n * 2, len(body))
    # shrink values of the remaining ops / keep only the failing buffer size where that keeps the key
    for i in range(len(cur)):
        op = cur[i]
        if runs >= budget:
            break
        if op.get("op") == "set" and len(op["val"]) > 1:
            for cut in (0, 1, len(op["val"]) // 2):
                trial = dict(op)
                trial["val"] = op["val"][:cut]
                cand = cur[:i] + [trial] + cur[i + 1:]
                runs += 1
                v = still_fails(exes, variant, cand, key)
                if v is not None and v[1] == best[1]:
                    cur = cand
                    best = v
                    break
        if op.get("op") == "parse":
            # canonical re-spelling (LF terminators), drop lines of the chunk, then cut values
            def respell(ls):
                return "".join(S(x) + "\n" for x in ls)
            ls = split_lines(B(cur[i]["text"]))
            changed = True
            while changed and runs < budget:
                changed = False
                for j in range(len(ls) + 1):
                    if j == len(ls):
                        ls2 = list(ls)          # only the re-spelling
                        if respell(ls2) == cur[i]["text"]:
                            continue
                    else:
                        ls2 = ls[:j] + ls[j + 1:]
                        if not ls2:
                            continue
                    cand = cur[:i] + [{"op": "parse", "text": respell(ls2)}] + cur[i + 1:]
                    runs += 1
                    v = still_fails(exes, variant, cand, key)
                    if v is not None and v[1] == best[1]:
                        cur, best, changed, ls = cand, v, True, ls2
                        break
            if respell(ls) == cur[i]["text"]:
                for j in range(len(ls)):
                    l = ls[j]
                    e = l.find(b"=")
                    if e < 0 or l[:1] in (b"[", b";", b"#") or len(l) - e < 4 or runs >= budget:
                        continue
                    ls2 = ls[:j] + [l[:e + 2]] + ls[j + 1:]
                    cand = cur[:i] + [{"op": "parse", "text": respell(ls2)}] + cur[i + 1:]
                    runs += 1
                    v = still_fails(exes, variant, cand, key)
                    if v is not None and v[1] == best[1]:
                        cur, best, ls = cand, v, ls2
        if op.get("op") == "gen" and (op.get("all") or len(op.get("sizes", [])) > 1) and best[1] == i:
            obs = best[3]
            if isinstance(obs, dict) and "buf_size" in obs:
                trial = {"op": "gen", "sizes": [[0, int(obs["buf_size"])]]}
                cand = cur[:i] + [trial] + cur[i + 1:]
                runs += 1
                v = still_fails(exes, variant, cand, key)
                if v is not None:
                    cur = cand
                    best = v
    return cur, best


def minimise_job(job):
    exes, key, w = job
    ops, v = minimise(exes, w["variant"], w["history"], key)
    if v is None:
        w = dict(w)
        w["minimise_note"] = "not reproduced standalone; unminimised history kept"
        return key, w
    w = dict(w)
    w.update({"history": ops, "failing_op_index": v[1], "failing_op": ops[v[1]], "expected": v[2],
              "observed": v[3], "minimised": True})
    if len(ops) <= 64:
        w["payload_hex"] = [encode_op(o).hex() for o in ops]
    if key.startswith("bounds:ini_buf_gen"):
        # attach the sanitizer's view: same history with exact-size buffers forced
        res = run_history(exes[w["variant"]], ops, args=("exact",))
        for r in res:
            if isinstance(r, Crash):
                w["asan_report_exact_buffer"] = (r.report or "")[-3000:]
                w["asan_key_exact_buffer"] = common.crash_key(r, "ini_buf_gen")
                break
    return key, w


# ----------------------------------------------------------------------------
def clean_replays():
    """witness files of earlier runs of THIS property are stale once a new run starts"""
    import os
    d = os.path.join(common.REPLAY_DIR, PROP)
    if os.path.isdir(d):
        for f in os.listdir(d):
            if f.endswith(".json"):
                try:
                    os.unlink(os.path.join(d, f))
                except OSError:
                    pass


def plan_for(tier, nworkers):
    if tier == "quick":
        total = {"canon": 1504, "collide": 400, "intfam": 96}
    else:
        total = {"canon": 24000, "collide": 6400, "intfam": 1600}
    return [(f, n // nworkers) for f, n in total.items()]


def run(tier):
    report = common.Report(PROP, tier)
    report.rule = (
        "A case is a history of 6-400 operations on one INI store (parse of a text chunk, ini_val_set / _set_int / "
        "_set_uint, ini_val_get / ini_vali_get and their int/uint forms, ini_sect_find[i]+ini_sect_val_find[i], full "
        "enumeration, ini_buf_calc_size + ini_buf_gen into buffers 0..size+1) generated from VERIF_SEED over a small "
        "alphabet of section/key names differing only in case; canonical texts (no CR/LF in names/values, no '=' in "
        "names, no repeated header/key inside parsed text).  Families: canon (mutations never create keys of one "
        "section differing only in case), collide (they do), intfam (integer setters incl. powers of ten and the type "
        "minimum).  evaluations = histories; every operation's observation is compared with the ordered-list model. "
        "distinct_nontrivial = number of distinct behaviour classes (operation kind, case relation of the section/key "
        "name to the store, value-size change class relative to the 16-byte allocation padding or buffer-size "
        "relation, outcome) observed in this run.")
    report.assumptions = [
        "names/values are ASCII without NUL; the comparison of generated text is semantic (line terminators and the "
        "placement of a new key relative to blank lines are not judged)",
        "case-insensitive lookups with more than one candidate accept any candidate",
        "gen into an n-byte buffer is first run with a canary behind n bytes (write past n observed, history "
        "continues) and, when clean, repeated into an exact n-byte heap block under ASan",
    ]
    clean_replays()
    exes = common.try_builds(report, build_specs(tier))
    if "asu-gcc" not in exes:
        raise common.Inconclusive("asu build failed: %s" % report.builds)
    variants = ["asu-gcc"] + (["asu-clang"] if "asu-clang" in exes else [])
    nw = common.NCPU
    jobs = []
    for var in variants:
        plan = plan_for(tier, nw) if var == "asu-gcc" else [(f, max(1, n // 4)) for f, n in plan_for(tier, nw)]
        for w in range(nw):
            jobs.append((exes, var, w, plan, tier))
    found = {}
    counts = {}
    for part in common.parallel(worker, jobs):
        viol = part["violations"]
        part["violations"] = []
        report.merge(part)
        for key, w in viol:
            counts[key] = counts.get(key, 0) + 1
            if key not in found or len(w["history"]) < len(found[key]["history"]):
                found[key] = w
    mjobs = [(exes, k, w) for k, w in sorted(found.items())]
    for key, w in common.parallel(minimise_job, mjobs):
        w["seed"] = common.seed()
        w["build"] = {"driver": DRIVER, "repo_sources": REPO_SRC, "variant": w["variant"]}
        report.violations[key] = {"count": counts[key], "witness": w}
    ops_total = report.extra.get("operations", 0)
    if ops_total == 0 or report.extra.get("gen_full_text", 0) == 0 or report.extra.get("op_get", 0) == 0:
        report.inconclusive.append("essential monitor saw nothing (operations=%d)" % ops_total)
    return report.finish()


def replay(path):
    with open(path) as fh:
        rec = json.load(fh)
    w = rec["witness"]
    report = common.Report(PROP, "quick")
    exes = common.try_builds(report, build_specs("thorough"))
    var = w.get("variant", "asu-gcc")
    if var not in exes:
        print("INCONCLUSIVE property=%s variant %s does not build" % (PROP, var))
        return 2
    ops = w["history"]
    print("replaying %d operations in %s" % (len(ops), var))
    for i, op in enumerate(ops):
        print("  %3d %s" % (i, json.dumps(op)))
    viol = evaluate(var, exes, ops)
    hit = [v for v in viol if v[0] == rec["key"]]
    for v in viol:
        print("violation key=%s at op %d\n  expected: %s\n  observed: %s" % (
            v[0], v[1], json.dumps(v[2], default=str)[:1500], json.dumps(v[3], default=str)[:3000]))
    if hit:
        print("REPRODUCED key=%s" % rec["key"])
        return 1
    print("not reproduced (key %s)" % rec["key"])
    return 0
