"""C11 — pool life cycle is clean: no deadlock, leak, late callback or double hook.

Histories over create / threads_create / attach_first / shutdown (main, external,
pool thread, concurrent) / shutdown_wait / destroy with in-flight senders, timers
and read events, perturbed at the guarded scheduling points, under ASan+LSan and
TSan; plus fault enumeration: every k-th calloc / epoll_create1 / pipe2 /
epoll_ctl / pthread_create during creation is failed, for every k."""
import json

from .. import common, tpcommon
from ..common import Rng, W, R

PROP = "C11"
EV_OP, EV_OP_RET, EV_HOOK_START, EV_HOOK_STOP, EV_CB, EV_LATE, EV_FAULT, EV_RES, EV_TIMEOUT, EV_NOTE = range(1, 11)
(OP_CREATE, OP_THREADS_CREATE, OP_ATTACH_FIRST, OP_SENDERS_START, OP_SENDERS_STOP, OP_ARM_EVENTS,
 OP_SHUTDOWN_MAIN, OP_SHUTDOWN_EXT, OP_SHUTDOWN_POOL, OP_WAIT_MAIN, OP_WAIT_POOL, OP_DESTROY_MAIN, OP_DESTROY_POOL,
 OP_SLEEP_US, OP_GO, OP_JOIN_HELPERS, OP_THREADS_CREATE_AGAIN, OP_GATE, OP_FLOOD, OP_UNGATE, OP_WAIT_T0,
 OP_CLOSE_STDIN, OP_DETTACH, OP_FORCE_SEND) = range(1, 25)
OPN = {v: k for k, v in list(globals().items()) if k.startswith("OP_")}
FK = ["none", "calloc", "epoll_create1", "pipe2", "epoll_ctl", "pthread_create"]
EBUSY, EDEADLK = 16, 35
ALL_POINTS = (1 << 20) - 1
TP_S_F_BIND2CPU, TP_S_F_CLOEXEC = 1, 1 << 31


def build_all(report):
    wraps = ["-Wl,--wrap=%s" % f for f in ("calloc", "epoll_create1", "pipe2", "epoll_ctl", "pthread_create")]
    kw = dict(name="c11_life", sources=["c11_life.c"], flags=wraps, libs=["-lpthread"], repo_sources=tpcommon.TP_SOURCES)
    return common.try_builds(report, [("asu", dict(kw, san="asu")), ("tsan", dict(kw, san="tsan"))])


def encode(sc):
    w = W()
    w.u64(sc["seed"]).u8(sc["pool"]).u32(sc["flags"]).u16(sc["perturb"]).u16(sc["sleep_us"]).u64(sc["point_mask"])
    w.u8(sc["fk_kind"]).u32(sc["fk_k"]).u32(sc.get("stop_hook_sleep_us", 0)).u16(len(sc["ops"]))
    for op, arg in sc["ops"]:
        w.u8(op).u32(arg)
    return w.done()


def mk(rng, ops, **kw):
    sc = dict(seed=rng.u64(), pool=4, flags=0, perturb=0, sleep_us=300, point_mask=ALL_POINTS, fk_kind=0, fk_k=0, ops=ops, family="x")
    sc.update(kw)
    return sc


def gen_histories(tier, seed):
    rng = Rng(PROP, seed, "gen")
    scale = 3 if tier == "quick" else 100
    out = []
    pools = [1, 2, 4, 16]

    def settings():
        return dict(pool=rng.choice(pools), flags=rng.choice([0, TP_S_F_BIND2CPU, TP_S_F_CLOEXEC, TP_S_F_BIND2CPU | TP_S_F_CLOEXEC]),
                    perturb=rng.choice([0, 100, 400, 800]), sleep_us=rng.choice([50, 500, 2000]))
    for i in range(40 * scale):
        st = settings()
        pool = st["pool"]
        ops = [(OP_CREATE, 0)]
        skip = rng.below(3) == 0
        shape = rng.below(12)
        if shape == 0:                      # create + destroy only
            ops += [(OP_DESTROY_MAIN, 0)]
            out.append(mk(rng, ops, family="create-destroy", **st))
            continue
        ops.append((OP_THREADS_CREATE, 1 if skip else 0))
        if skip and rng.below(2):
            ops.append((OP_ATTACH_FIRST, 0))
        if shape == 1:                      # destroy right after threads_create: workers still STARTING
            ops = [(o, a) for o, a in ops if o != OP_ATTACH_FIRST]
            ops += [(OP_DESTROY_MAIN, 0)]
            out.append(mk(rng, ops, family="destroy-while-starting", **st))
            continue
        ops.append((OP_SLEEP_US, rng.choice([0, 200, 3000])))
        if rng.below(2):
            ops.append((OP_SENDERS_START, rng.range(1, 4)))
        if rng.below(2):
            ops.append((OP_ARM_EVENTS, 0))
        ops.append((OP_SLEEP_US, rng.choice([0, 500, 5000])))
        fam = "legal"
        if shape == 2:
            ops.append((OP_WAIT_MAIN, 0))              # before shutdown: EBUSY
            fam = "wait-before-shutdown"
        if shape == 3 and not (skip and pool == 1):
            ops += [(OP_WAIT_POOL, rng.below(pool) if not skip else rng.range(1, pool - 1) if pool > 1 else 0), (OP_SLEEP_US, 2000)]
            fam = "wait-from-pool-thread"
        if shape == 4 and not (skip and pool == 1):
            ops += [(OP_DESTROY_POOL, rng.below(pool) if not skip else rng.range(1, pool - 1) if pool > 1 else 0), (OP_SLEEP_US, 2000)]
            fam = "destroy-from-pool-thread"
        # shutdown variants
        sv = rng.below(5)
        if sv == 0:
            ops.append((OP_SHUTDOWN_MAIN, 0))
        elif sv == 1:
            ops += [(OP_SHUTDOWN_MAIN, 0), (OP_SHUTDOWN_MAIN, 0)]
            fam += "+repeat-shutdown"
        elif sv == 2 and not (skip and pool == 1):
            ops += [(OP_SHUTDOWN_POOL, rng.below(pool) if not skip else rng.range(1, pool - 1) if pool > 1 else 0), (OP_GO, 0), (OP_SLEEP_US, 1000)]
            fam += "+shutdown-from-pool"
        elif sv == 3:
            n = rng.range(2, 3)
            ops += [(OP_SHUTDOWN_EXT, 0)] * n
            if not (skip and pool == 1) and rng.below(2):
                ops.append((OP_SHUTDOWN_POOL, rng.below(pool) if not skip else rng.range(1, pool - 1) if pool > 1 else 0))
            ops += [(OP_SLEEP_US, 300), (OP_GO, 0), (OP_JOIN_HELPERS, 0)] if not any(o == OP_ATTACH_FIRST for o, _ in ops) else [(OP_SLEEP_US, 300), (OP_GO, 0)]
            fam += "+concurrent-shutdown"
        else:
            pass                               # destroy performs the shutdown itself
        if shape == 5:
            ops.append((OP_THREADS_CREATE_AGAIN, 0))   # after shutdown: EBUSY (if a shutdown happened)
            fam += "+threads-create-after-shutdown"
        attached = any(o == OP_ATTACH_FIRST for o, _ in ops)
        if attached:
            # the attached thread must have returned from tp_thread_attach_first() before anybody waits for / destroys the pool
            ops = [(o, a) for o, a in ops if o not in (OP_WAIT_MAIN,) or a == 0]
            ops.append((OP_SHUTDOWN_MAIN, 0))
            ops.append((OP_JOIN_HELPERS, 0))
        if rng.below(2):
            ops.append((OP_WAIT_MAIN, 1))
        if rng.below(3) == 0:
            ops.append((OP_WAIT_MAIN, 1))
        ops.append((OP_SENDERS_STOP, 0))
        ops.append((OP_DESTROY_MAIN, 0))
        if rng.below(4) == 0:
            ops.append((OP_SLEEP_US, 2000))
        out.append(mk(rng, ops, family=fam, **st))
    # wait/destroy from the main thread while the attached first thread (and the workers) are still inside their stop hooks
    for i in range(4 * scale):
        st = settings()
        ops = [(OP_CREATE, 0), (OP_THREADS_CREATE, 1), (OP_ATTACH_FIRST, 0), (OP_WAIT_T0, 0), (OP_SLEEP_US, rng.choice([0, 500, 3000])),
               (OP_SHUTDOWN_MAIN, 0)]
        if rng.below(2):
            ops.append((OP_WAIT_MAIN, 1))
        ops += [(OP_DESTROY_MAIN, 0), (OP_JOIN_HELPERS, 0)]
        out.append(mk(rng, ops, family="destroy-while-attached-in-stop-hook", stop_hook_sleep_us=rng.choice([2000, 20000, 150000]), **st))
    # shutdown while a busy worker's message queue is completely full (the stop request must not get lost)
    for i in range(4 * scale):
        st = settings()
        pool = st["pool"]
        w = rng.below(pool)
        ops = [(OP_CREATE, 0), (OP_THREADS_CREATE, 0), (OP_SLEEP_US, 300), (OP_GATE, w), (OP_FLOOD, w)]
        sv = rng.below(3)
        if sv == 0:
            ops += [(OP_SHUTDOWN_MAIN, 0)]
        elif sv == 1 and pool > 1:
            ops += [(OP_SHUTDOWN_POOL, (w + 1) % pool), (OP_GO, 0), (OP_SLEEP_US, 3000)]
        else:
            ops += [(OP_SHUTDOWN_EXT, 0), (OP_GO, 0), (OP_JOIN_HELPERS, 0)]
        ops += [(OP_UNGATE, 0), (OP_WAIT_MAIN, 1), (OP_DESTROY_MAIN, 0)]
        out.append(mk(rng, ops, family="shutdown-with-full-queue", **st))
    # descriptor 0 is free when the pool is created (a daemon that closed stdin): the pool's first descriptor gets number 0
    for i in range(3 * scale):
        st = settings()
        ops = [(OP_CLOSE_STDIN, 0), (OP_CREATE, 0)]
        if i % 3:
            ops += [(OP_THREADS_CREATE, 0), (OP_SLEEP_US, 300), (OP_SHUTDOWN_MAIN, 0), (OP_WAIT_MAIN, 1)]
        ops += [(OP_DESTROY_MAIN, 0)]
        out.append(mk(rng, ops, family="stdin-closed", **st))
    # a second tp_threads_create(tp, 0) while slot 0 is run by the thread that attached itself (its pt_id is unset by design)
    for i in range(3 * scale):
        st = settings()
        ops = [(OP_CREATE, 0), (OP_THREADS_CREATE, 1), (OP_ATTACH_FIRST, 0), (OP_WAIT_T0, 0), (OP_THREADS_CREATE_AGAIN, 0),
               (OP_SLEEP_US, rng.choice([300, 3000])), (OP_SHUTDOWN_MAIN, 0), (OP_JOIN_HELPERS, 0), (OP_WAIT_MAIN, 1), (OP_DESTROY_MAIN, 0)]
        out.append(mk(rng, ops, family="create-again-while-attached", **st))
    # forced sends to threads that do not run yet (callback runs in place), the threads are started afterwards, then shut down
    for i in range(3 * scale):
        st = settings()
        pool = st["pool"]
        ops = [(OP_CREATE, 0)] + [(OP_FORCE_SEND, rng.below(pool)) for _ in range(rng.range(1, 4))]
        ops += [(OP_THREADS_CREATE, 0), (OP_SLEEP_US, 300), (OP_SHUTDOWN_MAIN, 0), (OP_WAIT_MAIN, 1), (OP_DESTROY_MAIN, 0)]
        out.append(mk(rng, ops, family="force-send-before-start", **st))
    # tp_thread_dettach() on a slot that has no thread in its event loop: reserved but never attached, or attached and left again
    for i in range(4 * scale):
        st = settings()
        if i % 2 == 0:
            ops = [(OP_CREATE, 0), (OP_THREADS_CREATE, 1), (OP_SLEEP_US, 300), (OP_DETTACH, 0), (OP_SHUTDOWN_MAIN, 0), (OP_WAIT_MAIN, 1),
                   (OP_DESTROY_MAIN, 0)]
        else:
            ops = [(OP_CREATE, 0), (OP_THREADS_CREATE, 1), (OP_ATTACH_FIRST, 0), (OP_WAIT_T0, 0), (OP_SHUTDOWN_MAIN, 0), (OP_JOIN_HELPERS, 0),
                   (OP_DETTACH, 0), (OP_WAIT_MAIN, 1), (OP_DESTROY_MAIN, 0)]
        out.append(mk(rng, ops, family="dettach-idle-slot", **st))
    for i, sc in enumerate(out):
        sc["index"] = i
    return out


def fault_base(rng, pool):
    ops = [(OP_CREATE, 0), (OP_THREADS_CREATE, 0), (OP_SLEEP_US, 500), (OP_SHUTDOWN_MAIN, 0), (OP_WAIT_MAIN, 1), (OP_DESTROY_MAIN, 0)]
    return mk(rng, ops, family="fault-enum", pool=pool, flags=0)


# ---------------------------------------------------------------------------
def check_log(sc, events, fk_fired, part):
    viol = []
    pool = sc["pool"]
    ops = sc["ops"]
    hooks = {}
    res = {}
    rets = []
    armed_timers = 0
    create_rc = None
    create_ptr = None
    for e in events:
        ts, tid, kind, aux, a, b, c = e
        if kind == EV_HOOK_START or kind == EV_HOOK_STOP:
            h = hooks.setdefault(a, [0, 0, []])
            h[0 if kind == EV_HOOK_START else 1] += 1
            h[2].append(("start" if kind == EV_HOOK_START else "stop", ts, tid))
            if aux:
                viol.append(("log:hook:after-destroy", "%s hook for thread %d ran after tp_destroy returned 0" % ("start" if kind == EV_HOOK_START else "stop", a)))
        elif kind == EV_LATE:
            viol.append(("log:callback:after-destroy", "callback kind %d ran after tp_destroy returned 0" % aux))
        elif kind == EV_RES:
            res[aux] = (a, b, c)
        elif kind == EV_OP_RET:
            rets.append((ts, tid, aux, a, c))
            if aux == OP_CREATE:
                create_rc, create_ptr = c, a
        elif kind == EV_NOTE and aux == 1 and c == 0:
            armed_timers += 1
    # --- hooks
    for num, (ns, nst, seq) in sorted(hooks.items()):
        who = "virtual thread" if num == pool else "thread %d" % num
        if ns > 1:
            viol.append(("log:hook:start-more-than-once", "%s: start hook ran %d times" % (who, ns)))
        if nst > 1:
            viol.append(("log:hook:stop-more-than-once", "%s: stop hook ran %d times (%s)" % (who, nst, [(k, t) for k, _ts, t in seq])))
        if nst > ns:
            viol.append(("log:hook:stop-without-start", "%s: stop hook ran %d times, start hook %d times" % (who, nst, ns)))
        elif nst < ns and 1 in res:
            viol.append(("log:hook:start-without-stop", "%s: start hook ran but stop hook never did although the pool was torn down" % who))
        order = sorted(seq, key=lambda x: x[1])
        if ns == 1 and nst == 1 and order[0][0] != "start":
            viol.append(("log:hook:stop-before-start", "%s: stop hook ran before start hook" % who))
    # --- creation outcome
    fault_in_create = sc["fk_kind"] in (1, 2, 3, 4) and fk_fired
    if create_rc is not None:
        if fault_in_create:
            if create_rc == 0 or create_ptr:
                viol.append(("log:tp_create:success-despite-failed-%s" % FK[sc["fk_kind"]],
                             "tp_create returned %d (pool pointer set: %s) although %s call #%d failed" % (create_rc, bool(create_ptr), FK[sc["fk_kind"]], sc["fk_k"])))
        else:
            if create_rc != 0 or not create_ptr:
                viol.append(("log:tp_create:failed-without-cause", "tp_create rc=%d ptr=%s with no injected failure" % (create_rc, bool(create_ptr))))
        if create_rc == 0 and create_ptr:
            if hooks.get(pool, [0, 0])[0] != 1:
                viol.append(("log:hook:virtual-thread-start-count", "virtual thread start hook ran %d times after successful create" % hooks.get(pool, [0, 0])[0]))
    # --- expected started workers
    if create_rc == 0 and not fault_in_create:
        started = set()
        maybe = set()          # created while a shutdown issued from another thread may or may not have happened yet
        shutdown_sync = False
        shutdown_async = False
        for op, arg in ops:
            if op in (OP_SHUTDOWN_MAIN, OP_DESTROY_MAIN):
                shutdown_sync = True
            if op in (OP_SHUTDOWN_EXT, OP_SHUTDOWN_POOL):
                shutdown_async = True
            if op in (OP_THREADS_CREATE, OP_THREADS_CREATE_AGAIN) and not shutdown_sync:
                start = 1 if arg else 0
                idx = 0
                for t in range(start, pool):
                    idx += 1
                    if sc["fk_kind"] == 5 and fk_fired and idx == sc["fk_k"]:
                        continue
                    (maybe if shutdown_async else started).add(t)
            if op == OP_ATTACH_FIRST and not shutdown_sync:
                (maybe if shutdown_async else started).add(0)
        attached = any(o == OP_ATTACH_FIRST for o, _ in ops)
        for t in sorted(started):
            if hooks.get(t, [0, 0])[0] != 1 and not attached:
                viol.append(("log:hook:worker-start-count", "thread %d was created but its start hook ran %d times" % (t, hooks.get(t, [0, 0])[0])))
        for t in range(pool):
            if t not in started and t not in maybe and hooks.get(t, [0, 0])[0]:
                viol.append(("log:hook:start-for-never-started-thread", "thread %d was never started but its start hook ran" % t))
    # --- return codes of the legality checks
    shutdown_done = False
    per_op = {}
    for ts, tid, op, a, rc in rets:
        per_op.setdefault(op, []).append(rc)
    if OP_WAIT_POOL in per_op and any(rc == 0 for rc in per_op[OP_WAIT_POOL]):
        viol.append(("log:tp_shutdown_wait:from-pool-thread-not-refused", "rc=%s" % per_op[OP_WAIT_POOL]))
    if OP_DESTROY_POOL in per_op and any(rc != EDEADLK for rc in per_op[OP_DESTROY_POOL]):
        viol.append(("log:tp_destroy:from-pool-thread-not-refused", "rc=%s" % per_op[OP_DESTROY_POOL]))
    # first WAIT_MAIN with arg 0 is issued before any shutdown
    first_wait_before = None
    seen_shutdown = False
    for op, arg in ops:
        if op in (OP_SHUTDOWN_MAIN, OP_SHUTDOWN_EXT, OP_SHUTDOWN_POOL, OP_DESTROY_MAIN, OP_DESTROY_POOL):
            seen_shutdown = True
        if op == OP_WAIT_MAIN and arg == 0 and not seen_shutdown:
            first_wait_before = True
            break
    if first_wait_before and OP_WAIT_MAIN in per_op and create_rc == 0 and per_op[OP_WAIT_MAIN][0] != EBUSY:
        viol.append(("log:tp_shutdown_wait:before-shutdown-not-refused", "rc=%d" % per_op[OP_WAIT_MAIN][0]))
    if OP_DESTROY_MAIN in per_op and per_op[OP_DESTROY_MAIN][-1] != 0:
        viol.append(("log:tp_destroy:final-destroy-failed", "rc=%s" % per_op[OP_DESTROY_MAIN]))
    # --- resources
    if 0 in res and 1 in res:
        fd0, t0, _ = res[0]
        fd1, t1, dok = res[1]
        if fd1 != fd0 + armed_timers:
            viol.append(("res:descriptors-leaked" if fd1 > fd0 + armed_timers else "res:descriptors-closed-twice",
                         "open descriptors before create: %d, after teardown: %d (user-owned armed timers: %d)" % (fd0, fd1, armed_timers)))
        if t1 != t0:
            viol.append(("res:threads-leaked", "tasks before create: %d, after teardown: %d" % (t0, t1)))
    else:
        part["inconclusive"].append("scenario %s: resource records missing" % sc.get("index"))
    return viol


def run_one(job):
    sc, exes = job
    part = common.new_part()
    part["fkcounts"] = None
    payload = encode(sc)
    for san, exe in exes.items():
        env = {}
        if san == "asu":
            env["ASAN_OPTIONS"] = common.SAN_ENV["ASAN_OPTIONS"].replace("detect_leaks=0", "detect_leaks=1")
        r = tpcommon.run_scenario(exe, payload, env_extra=env, wall_timeout=200)
        if r.obs is None and (r.wall_timeout or common.classify_crash(r.rc, r.err) == "hang"):
            r = tpcommon.run_scenario(exe, payload, env_extra=env, wall_timeout=200)   # re-run once before calling it a hang
        part["evaluations"] += 1
        wit = {"scenario": dict(sc, ops=[(OPN.get(o, o), a) for o, a in sc["ops"]]), "build": san, "payload": payload.hex(),
               "raw_ops": sc["ops"]}
        if r.obs is None:
            kind = common.classify_crash(r.rc, r.err)
            if kind in ("asan", "ubsan"):
                part["violations"].append((common.crash_key(common.Crash(kind, r.err, r.rc), "c11"), dict(wit, report=r.err[-5000:])))
            elif kind == "hang":
                part["violations"].append(("hang:life-cycle:%s" % sc["family"].split("+")[0], dict(wit, report=r.err[-2000:])))
            else:
                part["inconclusive"].append("scenario %s build %s: harness exit rc=%s %s" % (sc.get("index"), san, r.rc, r.err[-300:]))
            continue
        rd = R(r.obs)
        if rd.u32() != 0xC11C11:
            part["inconclusive"].append("bad observation")
            continue
        counts = [rd.u64() for _ in range(6)]
        fired = rd.u64()
        cbs = rd.u64()
        points = tpcommon.decode_points(rd)
        events = tpcommon.decode_events(rd)
        part["fkcounts"] = counts
        common.part_count(part, "events", len(events))
        common.part_count(part, "callbacks_run", cbs)
        common.part_count(part, "faults_fired", fired)
        common.part_count(part, "hook_events", sum(1 for e in events if e[2] in (EV_HOOK_START, EV_HOOK_STOP)))
        for i, (v, p) in enumerate(points):
            if v:
                common.part_count(part, "point_visits_%d" % i, v)
                common.part_count(part, "point_perturbed_%d" % i, p)
        if sc["fk_kind"] and not fired:
            part["inconclusive"].append("fault %s #%d never reached" % (FK[sc["fk_kind"]], sc["fk_k"]))
        for key, detail in check_log(sc, events, fired, part):
            part["violations"].append((key, dict(wit, detail=detail)))
        tpcommon.triage_into(part, r.err, wit, san)
        part["classes"].add((sc["family"], sc["pool"] if sc["pool"] < 16 else 16, FK[sc["fk_kind"]], bool(sc["perturb"])))
        if not part["samples"]:
            part["samples"].append({"history": [(OPN.get(o, o), a) for o, a in sc["ops"]], "pool": sc["pool"], "fault": (FK[sc["fk_kind"]], sc["fk_k"]),
                                    "events": len(events)})
    return part


def run(tier):
    report = common.Report(PROP, tier, "fault_enumeration")
    report.rule = ("(a) histories: seeded sequences over create/threads_create/attach_first/senders/armed events/shutdown(main|external|pool|"
                   "concurrent)/wait/destroy incl. illegal orders, perturbed at scheduling points; (b) fault enumeration: a dry run counts the "
                   "calloc/epoll_create1/pipe2/epoll_ctl/pthread_create calls of pool creation, then every k-th call of every kind is failed; "
                   "distinct class = (history family, pool size, failed resource kind, perturbed?)")
    exes = build_all(report)
    if not exes:
        raise common.Inconclusive("harness does not build: %s" % report.builds)
    rng = Rng(PROP, common.seed(), "faults")
    jobs = [(sc, exes) for sc in gen_histories(tier, common.seed())]
    # dry runs to count resource acquisitions
    pools = [1, 2, 4] if tier == "quick" else [1, 2, 4, 16]
    one = {"asu": exes["asu"]} if "asu" in exes else exes
    enum_total = 0
    enum_detail = {}
    for pool in pools:
        base = fault_base(rng, pool)
        p = run_one((base, one))
        report.merge({k: v for k, v in p.items() if k != "fkcounts"})
        counts = p["fkcounts"]
        if not counts:
            report.inconclusive.append("dry run for pool %d produced no counts" % pool)
            continue
        enum_detail["pool=%d" % pool] = {FK[k]: counts[k] for k in range(1, 6)}
        for kind in range(1, 6):
            for k in range(1, counts[kind] + 1):
                sc = fault_base(rng, pool)
                sc.update(fk_kind=kind, fk_k=k, family="fault-enum")
                sc["index"] = "F%d.%s.%d" % (pool, FK[kind], k)
                jobs.append((sc, exes))
                enum_total += 1
    for part in common.parallel(run_one, jobs):
        part.pop("fkcounts", None)
        report.merge(part)
    report.extra["fault_positions_enumerated"] = enum_total
    report.extra["fault_positions_by_pool"] = enum_detail
    report.extra["exhaustive_subdomain"] = "every k-th resource acquisition of tp_create+tp_threads_create for pools %s (all kinds, all k)" % pools
    report.assumptions = [
        "timerfds of timers that the user armed and never deleted are user-owned (counted out of the descriptor balance)",
        "sends into a pool stop before tp_destroy is called (using a destroyed pool is caller misuse)",
        "concurrent tp_shutdown is exercised; concurrent tp_destroy / tp_shutdown_wait on one pool is not (double free by contract)",
    ]
    if report.extra.get("faults_fired", 0) == 0:
        report.inconclusive.append("no injected fault fired")
    return report.finish()


def replay(path):
    with open(path) as fh:
        w = json.load(fh)["witness"]
    report = common.Report(PROP, "quick")
    exes = build_all(report)
    sc = dict(w["scenario"])
    sc["ops"] = [tuple(x) for x in w["raw_ops"]]
    part = run_one((sc, {w["build"]: exes[w["build"]]}))
    for k, d in part["violations"]:
        print("replayed:", k, d.get("detail") or d.get("report", "")[:1500])
    print("violations on replay: %d" % len(part["violations"]))
    return 1 if part["violations"] else 0
