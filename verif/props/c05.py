"""C05 — thread-pool messages are delivered exactly once, in order, on the right thread.

Runs the real pool (src/threadpool/*.c) in the c05_msg harness under ASan+UBSan and
TSan with concurrent senders, seeded perturbation at the guarded scheduling points
and injected queue write/read failures; an offline checker over the merged
client-boundary event log decides."""
import errno
import hashlib
import json
import os

from .. import common, tpcommon
from ..common import Rng, W, R

PROP = "C05"
EV_SEND_CALL, EV_SEND_RET, EV_CB, EV_WRITE, EV_READ, EV_HOOK_START, EV_HOOK_STOP, EV_PHASE, EV_BADARG, EV_TIMEOUT, EV_GATE = range(1, 12)
F_SELF, F_FORCE, F_FAIL = 1, 2, 4
ALL_POINTS = (1 << 20) - 1


def build_all(report):
    kw = dict(name="c05_msg", sources=["c05_msg.c"], flags=["-Wl,--wrap=write", "-Wl,--wrap=read"],
              libs=["-lpthread"], repo_sources=tpcommon.TP_SOURCES)
    specs = [("asu", dict(kw, san="asu")), ("tsan", dict(kw, san="tsan"))]
    return common.try_builds(report, specs)


# ---------------------------------------------------------------------------
# Scenario generation
# ---------------------------------------------------------------------------
def encode(sc):
    w = W()
    w.u64(sc["seed"]).u8(sc["pool"]).u8(sc["start_mode"]).u8(sc["n_ext"]).u8(sc["n_pool"])
    w.u32(sc["nmsgs"]).u8(sc["flags_fixed"]).u8(sc["flags_rand"]).u8(sc["dst_mode"]).u8(sc["dst_k"])
    w.u8(sc["pass_src"]).u8(sc["bind"])
    w.u16(sc["perturb"]).u16(sc["sleep_us"]).u64(sc["point_mask"])
    w.u8(sc["gate"]).u8(sc["gate_dst"]).u8(sc.get("park_in_stop", 0)).u8(sc.get("shutdown_behind_gate", 0))
    w.u8(sc["wkind"]).u16(len(sc["wpos"]))
    for k in sc["wpos"]:
        w.u32(k)
    w.u8(sc["rkind"]).u16(len(sc["rpos"]))
    for k in sc["rpos"]:
        w.u32(k)
    return w.done()


def base(rng, **kw):
    sc = dict(seed=rng.u64(), pool=4, start_mode=0, n_ext=2, n_pool=0, nmsgs=300, flags_fixed=0, flags_rand=0,
              dst_mode=0, dst_k=0, pass_src=0, bind=0, perturb=0, sleep_us=300, point_mask=ALL_POINTS,
              gate=0, gate_dst=0, wkind=0, wpos=[], rkind=0, rpos=[], family="basic")
    sc.update(kw)
    return sc


def gen_scenarios(tier, seed):
    rng = Rng(PROP, seed, "gen")
    out = []
    scale = 3 if tier == "quick" else 60
    pools = [1, 2, 3, 4, 8, 16]
    # A: mixed flags, all sender kinds
    for i in range(30 * scale):
        pool = pools[i % len(pools)]
        n_pool = rng.range(0, min(pool - 1, 3)) if pool > 1 else rng.range(0, 1)
        out.append(base(rng, family="mixed", pool=pool, n_ext=rng.range(1, 6) if n_pool else rng.range(1, 8), n_pool=n_pool,
                        nmsgs=rng.choice([100, 400, 1500]), flags_rand=7, dst_mode=rng.choice([0, 0, 1, 3]),
                        dst_k=rng.range(1, min(pool, 2)), pass_src=rng.below(2), bind=rng.below(2),
                        perturb=rng.choice([0, 50, 200, 500]), sleep_us=rng.choice([50, 500, 2000])))
    # B: every flag combination x write fault kinds, positions enumerated over the first 64 queue writes
    for flags in range(8):
        for wkind in (1, 2, 3):
            for rep in range(scale):
                j = (flags + 3 * wkind + rep) % 8
                pos = [k for k in range(1, 65) if k % 8 == j]
                if tier != "quick":
                    pos = [k for k in range(1, 65) if k % scale == rep] + pos
                pos += [64 + rng.range(1, 1500) for _ in range(40)]
                pool = rng.choice([2, 3, 4, 8])
                out.append(base(rng, family="wfault", pool=pool, n_ext=rng.range(1, 3), n_pool=rng.range(0, 1),
                                nmsgs=300, flags_fixed=flags, dst_mode=rng.choice([0, 3]), wkind=wkind, wpos=sorted(set(pos)),
                                perturb=rng.choice([0, 100])))
    # C: thread 0 never started
    for i in range(8 * scale):
        pool = rng.choice([2, 3, 4, 8])
        out.append(base(rng, family="notstarted", pool=pool, start_mode=1, n_ext=rng.range(1, 3), n_pool=rng.range(0, 1),
                        nmsgs=200, flags_rand=7, dst_mode=rng.choice([0, 4]), dst_k=0, perturb=rng.choice([0, 100])))
    # C2: sends issued while every worker is parked inside its stop hook (shutdown in progress): must be refused or run directly
    for i in range(6 * scale):
        pool = rng.choice([1, 2, 4, 8])
        out.append(base(rng, family="stopping", pool=pool, start_mode=rng.choice([0, 0, 1]) if pool > 1 else 0, n_ext=1, nmsgs=50, flags_rand=7,
                        dst_mode=0, park_in_stop=1))
    # C3: shutdown requested while a busy worker still has accepted messages queued behind the stop message
    for i in range(4 * scale):
        pool = rng.choice([1, 2, 4])
        out.append(base(rng, family="shutdown-behind-gate", pool=pool, n_ext=1, nmsgs=rng.choice([5, 60]), flags_fixed=0, dst_mode=4, dst_k=0,
                        gate=1, gate_dst=0, shutdown_behind_gate=1))
    # C4: the stop message is read in one batch behind a second gate; sends accepted while the worker sits in that gate
    for i in range(2 * scale):
        out.append(base(rng, family="stop-in-batch-behind-gate", pool=rng.choice([1, 2, 4]), n_ext=1, nmsgs=5, flags_fixed=0, dst_mode=4,
                        dst_k=0, gate=1, gate_dst=0, shutdown_behind_gate=2))
    # C5: messages accepted by the shared virtual thread are still queued when the shutdown starts (every worker gated;
    # with park_in_stop the workers leave their loops together)
    for i in range(2 * scale):
        out.append(base(rng, family="pvt-backlog-at-shutdown", pool=rng.choice([1, 2, 4]), n_ext=1, nmsgs=5, flags_fixed=0, dst_mode=4,
                        dst_k=0, gate=1, gate_dst=0, shutdown_behind_gate=3, park_in_stop=i % 2))
    # C6: a sender races tp_shutdown(), perturbed between its running test and its queue write
    for i in range(6 * scale):
        out.append(base(rng, family="send-races-shutdown", pool=rng.choice([1, 2, 4]), n_ext=1, nmsgs=5, flags_fixed=0, dst_mode=0,
                        perturb=rng.choice([200, 500, 800]), sleep_us=rng.choice([100, 300, 1000]), shutdown_behind_gate=4))
    # C7: shutdown while a gated worker's queue is full (2048 accepted messages = two read batches, stop message does not fit)
    for i in range(1 * scale):
        out.append(base(rng, family="full-queue-at-shutdown", pool=rng.choice([1, 2, 4]), n_ext=2, nmsgs=1600, flags_fixed=0, dst_mode=4,
                        dst_k=0, gate=1, gate_dst=0, shutdown_behind_gate=5))
    # C8: sends accepted by workers that are still STARTING (and by the virtual thread), shutdown before they look at the flag
    for i in range(6 * scale):
        out.append(base(rng, family="shutdown-overtakes-starting-workers", pool=rng.choice([1, 2, 4, 8]), start_mode=2, n_ext=0, nmsgs=0,
                        flags_fixed=0, dst_mode=0, shutdown_behind_gate=6))
    # D: sends racing with thread start (STARTING)
    for i in range(8 * scale):
        pool = rng.choice([1, 2, 4, 16])
        out.append(base(rng, family="starting", pool=pool, start_mode=2, n_ext=rng.range(1, 4), nmsgs=150, flags_rand=5,
                        dst_mode=0, perturb=rng.choice([0, 300])))
    # E: destination gated so the 64 KiB pipe fills: natural EAGAIN
    for i in range(4 * scale):
        pool = rng.choice([2, 4])
        out.append(base(rng, family="pipefull", pool=pool, n_ext=2, nmsgs=1600, flags_fixed=rng.choice([0, F_FAIL, F_FAIL | F_SELF]),
                        dst_mode=4, dst_k=0, gate=1, gate_dst=0))
    # F: shared virtual thread only, contention between workers
    for i in range(10 * scale):
        pool = rng.choice([1, 2, 4, 8, 16])
        out.append(base(rng, family="pvt", pool=pool, n_ext=rng.range(1, 6), n_pool=rng.range(0, min(pool - 1, 2)) if pool > 1 else 0,
                        nmsgs=rng.choice([200, 1000]), flags_rand=rng.choice([0, 7]), dst_mode=2, perturb=rng.choice([0, 200, 500]),
                        sleep_us=rng.choice([50, 1000])))
    # G: queue read() interrupted / EAGAIN
    for i in range(6 * scale):
        pool = rng.choice([1, 2, 4])
        out.append(base(rng, family="rfault", pool=pool, n_ext=rng.range(1, 4), nmsgs=400, flags_rand=rng.choice([0, 7]),
                        dst_mode=rng.choice([0, 3]), rkind=rng.choice([1, 2]), rpos=sorted(set(rng.range(1, 400) for _ in range(60))),
                        perturb=rng.choice([0, 100])))
    # H: few destinations, many senders, long bursts spanning several 1024-packet reads
    for i in range(4 * scale):
        out.append(base(rng, family="burst", pool=rng.choice([2, 4]), n_ext=8, nmsgs=2500, flags_fixed=0, dst_mode=1, dst_k=1,
                        perturb=rng.choice([0, 20]), sleep_us=2000, point_mask=(1 << 3) | (1 << 4)))
    for i, sc in enumerate(out):
        sc["index"] = i
    return out


# ---------------------------------------------------------------------------
# Offline checker
# ---------------------------------------------------------------------------
def check_log(sc, events, part):
    """Returns list of (key, detail) violations for one scenario history."""
    viol = []
    pool = sc["pool"]
    never_started = {0} if sc["start_mode"] == 1 else set()
    sends = {}
    cbs = {}
    thr = tpcommon.by_thread(events)
    timeout = False
    for tid, evs in thr.items():
        cur = None
        for pos, e in enumerate(evs):
            ts, _tid, kind, aux, a, b, c = e
            if kind == EV_SEND_CALL:
                cur = a
                sends[a] = dict(thread=tid, flags=aux, dst=b, rc=None, writes=[], order=pos, stopping=bool(c))
            elif kind == EV_SEND_RET:
                if a in sends:
                    sends[a]["rc"] = c
                cur = None
            elif kind == EV_WRITE:
                if cur is not None:
                    sends[cur]["writes"].append((a, aux, c))
            elif kind == EV_CB:
                cbs.setdefault(a, []).append(dict(tid=tid, tptnum=b, pvt=aux, nested=(cur == a), nested_other=(cur is not None and cur != a), pos=pos))
            elif kind == EV_BADARG:
                viol.append(("log:msg_cb:bad-argument", "callback received a pointer that was never sent: %#x" % a))
            elif kind == EV_TIMEOUT:
                timeout = True
    fifo = {}
    arrival = {}
    for mid, s in sorted(sends.items()):
        flags, dst, rc = s["flags"], s["dst"], s["rc"]
        cl = cbs.get(mid, [])
        sender_is_pool = s["thread"] < 900
        failed_write = any(err != 0 for (_k, _inj, err) in s["writes"])
        dst_down = dst in never_started or s["stopping"]
        skind = "pool" if sender_is_pool else "ext"
        dkind = "pvt" if dst == pool else ("down" if dst_down else ("self" if sender_is_pool and dst == s["thread"] else "real"))
        if rc is None:
            viol.append(("log:tpt_msg_send:no-return", "send %#x never returned" % mid))
            continue
        if rc != 0:
            if cl:
                viol.append(("log:tpt_msg_send:callback-after-failed-send",
                             "send %#x flags=%d dst=%d returned %d but callback ran %d time(s)" % (mid, flags, dst, rc, len(cl))))
            cause = (dst_down and not (flags & F_FORCE)) or (failed_write and not (flags & F_FAIL))
            if not cause and not (flags & F_SELF and dkind == "self"):
                viol.append(("log:tpt_msg_send:failure-without-cause",
                             "send %#x flags=%d dst=%d returned %d though destination runs and no queue write failed" % (mid, flags, dst, rc)))
            part["classes"].add(("refused", flags, skind, dkind, "hostdown" if dst_down else errno.errorcode.get(rc, str(rc))))
            continue
        # rc == 0
        if len(cl) == 0:
            viol.append(("log:tpt_msg_send:lost", "send %#x flags=%d dst=%d returned 0 but callback never ran (failed_write=%s)" % (mid, flags, dst, failed_write)))
            continue
        if len(cl) > 1:
            viol.append(("log:tpt_msg_send:duplicate", "send %#x flags=%d dst=%d: callback ran %d times on threads %s" % (
                mid, flags, dst, len(cl), [x["tid"] for x in cl])))
            continue
        cb = cl[0]
        if cb["tptnum"] != dst:
            viol.append(("log:msg_cb:wrong-thread-argument", "send %#x dst=%d: callback got tpt #%d" % (mid, dst, cb["tptnum"])))
        if cb["nested"] and cb["tid"] == s["thread"]:
            why = None
            if (flags & F_SELF) and dkind == "self":
                why = "self"
            elif (flags & F_FORCE) and dst_down:
                why = "force"
            elif (flags & F_FAIL) and failed_write:
                why = "fail"
            if why is None:
                viol.append(("log:tpt_msg_send:direct-call-not-permitted",
                             "send %#x flags=%d dst=%d (%s) ran the callback synchronously in the caller without a permitting condition" % (mid, flags, dst, dkind)))
            part["classes"].add(("direct", why, flags, skind, dkind))
            continue
        # queue delivery
        if dst == pool:
            if not (cb["tid"] < pool and cb["pvt"]):
                viol.append(("log:msg_cb:pvt-on-non-pool-thread", "send %#x to virtual thread ran on tid %d" % (mid, cb["tid"])))
        else:
            if cb["tid"] != dst:
                viol.append(("log:msg_cb:wrong-thread", "send %#x dst=%d ran on thread %d" % (mid, dst, cb["tid"])))
            fifo.setdefault((s["thread"], dst), []).append((s["order"], cb["pos"], mid))
            arrival.setdefault(dst, []).append((cb["pos"], s["thread"]))
        part["classes"].add(("queued", flags, skind, dkind, "wfail" if failed_write else "ok"))
    for mid, cl in cbs.items():
        if mid not in sends:
            viol.append(("log:msg_cb:unknown-message", "callback for id %#x that was never sent" % mid))
    for (snd, dst), lst in fifo.items():
        lst.sort()
        last = -1
        for order, cpos, mid in lst:
            if cpos < last:
                viol.append(("log:tpt_msg_send:fifo-order", "sender %d -> thread %d: message %#x ran before an earlier-sent one" % (snd, dst, mid)))
                break
            last = cpos
    # interleaving signature: per-destination arrival order of sender ids
    for dst, lst in arrival.items():
        lst.sort()
        sig = hashlib.sha1(bytes((t % 251) for _p, t in lst[:4000])).hexdigest()[:10]
        part["sigs"].add(sig)
    if timeout and not viol:
        part["inconclusive"].append("scenario %d: quiescence watchdog fired but no message is missing" % sc["index"])
    return viol


def run_one(job):
    sc, exes = job
    part = common.new_part()
    part["sigs"] = set()
    part["points"] = {}
    payload = encode(sc)
    for san, exe in exes.items():
        env = {}
        if san == "asu":
            env["ASAN_OPTIONS"] = common.SAN_ENV["ASAN_OPTIONS"].replace("detect_leaks=0", "detect_leaks=1")
        r = tpcommon.run_scenario(exe, payload, env_extra=env, wall_timeout=400)
        if r.obs is None and r.wall_timeout:
            # re-run once before calling it a hang
            r = tpcommon.run_scenario(exe, payload, env_extra=env, wall_timeout=400)
        part["evaluations"] += 1
        wit = {"scenario": {k: v for k, v in sc.items()}, "build": san, "payload": payload.hex()}
        if r.obs is None:
            kind = common.classify_crash(r.rc, r.err)
            if kind in ("asan", "ubsan"):
                key = common.crash_key(common.Crash(kind, r.err, r.rc), "c05")
                part["violations"].append((key, dict(wit, report=r.err[-4000:])))
            elif kind == "hang":
                part["violations"].append(("hang:c05:%s" % sc["family"], dict(wit, report=r.err[-2000:])))
            else:
                part["inconclusive"].append("scenario %d build %s: harness exit rc=%s %s" % (sc["index"], san, r.rc, r.err[-300:]))
            continue
        rd = R(r.obs)
        if rd.u32() != 0xC05C05:
            part["inconclusive"].append("scenario %d: bad observation" % sc["index"])
            continue
        timeout = rd.i32()
        qw, winj, qr, rinj = rd.u64(), rd.u64(), rd.u64(), rd.u64()
        fd0, fd1, t0, t1 = rd.i32(), rd.i32(), rd.i32(), rd.i32()
        points = tpcommon.decode_points(rd)
        events = tpcommon.decode_events(rd)
        common.part_count(part, "events", len(events))
        common.part_count(part, "queue_writes", qw)
        common.part_count(part, "write_faults_injected", winj)
        common.part_count(part, "queue_reads", qr)
        common.part_count(part, "read_faults_injected", rinj)
        for i, (v, p) in enumerate(points):
            if v:
                common.part_count(part, "point_visits_%d" % i, v)
                common.part_count(part, "point_perturbed_%d" % i, p)
        common.part_count(part, "natural_write_failures", sum(1 for e in events if e[2] == EV_WRITE and e[3] == 0 and e[6] != 0))
        nm = sum(1 for e in events if e[2] == EV_SEND_CALL)
        ncb = sum(1 for e in events if e[2] == EV_CB)
        common.part_count(part, "messages_sent", nm)
        common.part_count(part, "callbacks_run", ncb)
        for key, detail in check_log(sc, events, part):
            part["violations"].append((key, dict(wit, detail=detail)))
        tpcommon.triage_into(part, r.err, wit, san)
        if len(part["samples"]) < 1:
            part["samples"].append({"scenario": {k: v for k, v in sc.items() if k not in ("wpos", "rpos")},
                                    "events": len(events), "first_events": [list(e) for e in events[:12]]})
    part["classes"] = set(part["classes"])
    return part


def run(tier):
    report = common.Report(PROP, tier, "exploration")
    report.rule = ("scenarios = (pool size, sender set: external/pool/self, flag set fixed or random per message, destination mix incl. "
                   "virtual thread and never-started thread, perturbation rate at scheduling points, injected queue write/read failures at "
                   "enumerated+sampled positions, pipe-full gate); each run under ASan+UBSan(+LSan) and TSan; every message has a unique id; "
                   "distinct class = (delivery path queued/direct/refused, cause, flag set, sender kind, destination kind, write outcome)")
    exes = build_all(report)
    if "asu" not in exes and "tsan" not in exes:
        raise common.Inconclusive("harness does not build: %s" % report.builds)
    scs = gen_scenarios(tier, common.seed())
    only = os.environ.get("VERIF_FAMILY")   # development filter; a filtered run is never a verdict
    if only:
        scs = [sc for sc in scs if sc["family"] in only.split(",")]
        report.inconclusive.append("development filter VERIF_FAMILY=%s" % only)
    sigs = set()
    fams = {}
    for part in common.parallel(run_one, [(sc, exes) for sc in scs]):
        sigs |= part.pop("sigs", set())
        part.pop("points", None)
        report.merge(part)
    for sc in scs:
        fams[sc["family"]] = fams.get(sc["family"], 0) + 1
    report.extra["scenario_families"] = fams
    report.extra["distinct_delivery_interleavings"] = len(sigs)
    report.extra["fault_positions_requested"] = sum(len(sc["wpos"]) + len(sc["rpos"]) for sc in scs)
    report.assumptions = [
        "interleavings are sampled by stress + seeded perturbation, not enumerated",
        "short or corrupted queue packets are not injected (kernel cannot produce them for writes <= PIPE_BUF)",
        "TSan reports whose both accesses are plain loads/stores of the deliberately unsynchronised volatile flags are not gating",
    ]
    if report.extra.get("callbacks_run", 0) == 0 or report.extra.get("write_faults_injected", 0) == 0:
        report.inconclusive.append("monitor saw no callbacks or no injected faults")
    return report.finish()


def replay(path):
    with open(path) as fh:
        w = json.load(fh)["witness"]
    report = common.Report(PROP, "quick")
    exes = build_all(report)
    sc = w["scenario"]
    part = run_one((sc, {w["build"]: exes[w["build"]]}))
    for k, d in part["violations"]:
        print("replayed:", k, d.get("detail") or d.get("report", "")[:1500])
    print("violations on replay: %d" % len(part["violations"]))
    return 1 if part["violations"] else 0
