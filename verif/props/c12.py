"""C12 - utility codecs and containers never touch memory outside the caller's buffers,
report the size they need, and terminate.

Monitors (drivers/utils_drv.c under ASan+UBSan, gcc and clang):
  * ASan / UBSan-bounds report while the library runs on exact-size heap inputs and an output
    buffer of exactly the capacity it was told (capacity swept 0 .. required+1);
  * canary frames around the output buffer (placement 1);
  * size contract: when a function fails and reports a required size R, a second call with a
    buffer of exactly R bytes must succeed (and is itself under ASan / canary);
  * per-case CPU-time alarm (termination).
UBSan kinds that cannot leave an object (signed overflow, shift, pointer-overflow, alignment,
nonnull-attribute) are non-fatal and only counted as observations, as are returned
(pointer,length) spans that leave the input without the library itself touching them."""
import base64
import json
import os
import struct

from verif import common
from verif.common import Rng, Crash, R
from verif.oracles import utilcodec as U
from verif.oracles import crc as crc_oracle

PROP = "C12"
CASE_SECS = "2"

# every function the anchors list; the run is inconclusive if one of them was never executed
REQUIRED_FUNCS = (
    ["base64_encode", "base64_decode", "base64_decode_fmt", "cvt_bin2hex", "cvt_hex2bin"]
    + [U.num2str_name(f) for f in range(20)]
    + [U.str2num_name(0, f) for f in range(20)] + [U.str2num_name(1, f) for f in range(20)]
    + ["utf8_decode", "asn_parse",
       "mem_chr", "mem_chr_off", "mem_chr_ptr", "mem_rchr", "mem_rchr_off", "mem_rchr_ptr",
       "mem_find", "mem_find_off", "mem_find_ptr", "mem_find_stream", "mem_to_lower", "mem_to_upper",
       "mem_cmp", "mem_cmpn", "mem_cmpi", "mem_cmpin", "mem_dup2", "realloc_items", "mem_replace_arr",
       "xml_encode", "xml_decode", "xml_get_val_arr", "xml_get_val_ns_arr", "xml_get_val_args",
       "xml_calc_tag_count_args", "xml_get_val_size_t_args", "xml_get_val_ssize_t_args",
       "xml_get_val_uint32_args", "xml_get_val_int32_args", "xml_get_val_uint64_args",
       "xml_get_val_int64_args",
       "ini", "bt_en_decode", "buf2args", "buf_get_next_line",
       "calc_sptab_count", "calc_sptab_count_r", "calc_non_sptab_count", "calc_non_sptab_count_r",
       "data_xor8", "memxorbuf", "fmt_as_uptime", "yn_set_flag32"]
    + [c[0] for c in crc_oracle.CATALOGUE])


def variants(tier):
    v = [("gcc-asu-O1", dict(name="utils_drv", sources=["utils_drv.c"], san="asu", cc="gcc",
                             flags=U.RECOVER, repo_sources=U.REPO_SOURCES)),
         ("clang-asu-O1", dict(name="utils_drv", sources=["utils_drv.c"], san="asu", cc="clang",
                               flags=U.RECOVER, repo_sources=U.REPO_SOURCES))]
    if tier == "thorough":
        v.append(("gcc-asu-O2", dict(name="utils_drv", sources=["utils_drv.c"], san="asu", cc="gcc",
                                     flags=U.RECOVER + ["-O2"], repo_sources=U.REPO_SOURCES)))
        v.append(("clang-asu-O3", dict(name="utils_drv", sources=["utils_drv.c"], san="asu", cc="clang",
                                       flags=U.RECOVER + ["-O3"], repo_sources=U.REPO_SOURCES)))
    return v


# ---------------------------------------------------------------------------
# helpers
# ---------------------------------------------------------------------------
def lcls(n):
    if n == 0:
        return "n0"
    if n < 4:
        return "n1-3"
    if n < 16:
        return "n4-15"
    if n < 64:
        return "n16-63"
    if n <= 300:
        return "n64-300"
    if n < 4096:
        return "n301-4095"
    return "n4096+"


def relc(cap, req):
    if cap == req:
        return "cap=req"
    if cap == 0:
        return "cap=0"
    if cap < req:
        return "cap<req"
    if cap == req + 1:
        return "cap=req+1"
    return "cap>req+1"


def rel3(cap, req):
    return "cap<req" if cap < req else ("cap=req" if cap == req else "cap>req")


def M(ev, fn, lc, rel="", detail="", **kw):
    d = {"ev": ev, "fn": fn, "lcls": lc, "rel": rel, "detail": detail}
    d.update(kw)
    return d


def caps_around(req, rng, full_limit=14):
    if req <= full_limit:
        return list(range(0, req + 2))
    s = {0, 1, req - 2, req - 1, req, req + 1, rng.range(2, req - 2), req + rng.range(2, 40)}
    return sorted(c for c in s if c >= 0)


def b64_model_req(src, fmt):
    """What base64_decode itself defines as the needed size (dcd_size), or None when it returns
    before computing one."""
    t = bytes(b for b in src if b in U.B64_ALPHA) if fmt else src
    t = t.rstrip(b"=")
    if len(src) == 0 or len(t) == 0:
        return 0
    if len(t) < 2:
        return None
    return ((len(t) + 3) // 4) * 3


def replace_model(src, pairs):
    """Leftmost-first, lowest-index-wins simultaneous replacement (what mem_replace_arr documents
    by construction); patterns of length 0 never match."""
    out = bytearray()
    pos = 0
    n = len(src)
    while True:
        best = None
        for i, (a, b) in enumerate(pairs):
            if not a:
                continue
            j = src.find(a, pos)
            if j >= 0 and (best is None or j < best[0]):
                best = (j, i)
        if best is None:
            break
        j, i = best
        out += src[pos:j] + pairs[i][1]
        pos = j + len(pairs[i][0])
    out += src[pos:n]
    return bytes(out)


XML_ENC_PAIRS = [(b"'", b"&apos;"), (b'"', b"&quot;"), (b"&", b"&amp;"), (b"<", b"&lt;"), (b">", b"&gt;")]
XML_DEC_PAIRS = [(b, a) for a, b in XML_ENC_PAIRS]


# ---------------------------------------------------------------------------
# generators: each returns a list of (case bytes, meta); deterministic in (seed, family)
# ---------------------------------------------------------------------------
def gen_b64enc(rng, S):
    out = []
    k = 0
    lens = list(range(0, 65)) + [rng.range(65, 4096) for _ in range(30 * S)] + [4096, 65535]
    for n in lens:
        data = rng.bytes(n)
        req = 4 * ((n + 2) // 3)
        for cap in caps_around(req, rng, 8):
            k += 1
            framed = k % 6 == 0
            want = k % 11 != 0
            out.append((U.c_sized(U.OP_B64_ENC, 0, framed, 0, want, data, cap),
                        M("sized", "base64_encode", lcls(n) + "/mod3=%d" % (n % 3), relc(cap, req), rel3(cap, req), detail2="cap=req")))
    return out


def b64_texts(rng, S):
    texts = []
    for n in list(range(0, 40)) + [rng.range(40, 3000) for _ in range(12 * S)]:
        raw = rng.bytes(n)
        enc = base64.b64encode(raw)
        texts.append(("valid", enc))
        texts.append(("nopad", enc.rstrip(b"=")))
        if n % 3:
            texts.append(("overpad", enc + b"=" * rng.range(1, 3)))
        texts.append(("crlf", U.interleave(rng, enc, b"\r\n \t", 1, 6)))
        if n < 24 or rng.chance(1, 3):
            texts.append(("junk", U.interleave(rng, enc, U.NON_ALPHA, 1, 3)))
            e = bytearray(enc)
            if e:
                e.insert(rng.below(len(e) + 1), 0x3D)      # padding anywhere
            texts.append(("pad-inside", bytes(e)))
    for n in range(0, 9):
        texts.append(("only-pad", b"=" * n))
        texts.append(("one-char", b"A" + b"=" * n))
        texts.append(("alpha-only", bytes(rng.choice(U.B64_ALPHA) for _ in range(n))))
    for _ in range(40 * S):
        texts.append(("random", rng.bytes(rng.range(1, 200))))
    return texts


def gen_b64dec(rng, S):
    out = []
    k = 0
    for kind, t in b64_texts(rng, S):
        for fmt in (0, 1):
            fn = "base64_decode_fmt" if fmt else "base64_decode"
            r = b64_model_req(t, fmt)
            req = r if r is not None else 0
            if fmt:
                req = max(req, len(t))
            for cap in caps_around(req, rng, 10):
                k += 1
                out.append((U.c_sized(U.OP_B64_DEC, fmt, k % 6 == 0, 0, k % 13 != 0, t, cap),
                            M("sized", fn, lcls(len(t)) + "/" + kind, relc(cap, req), rel3(cap, req), detail2="cap=req")))
    return out


def gen_hex(rng, S):
    out = []
    k = 0
    for n in list(range(0, 34)) + [rng.range(34, 3000) for _ in range(10 * S)]:
        data = rng.bytes(n)
        for auto in (0, 1):
            req = 2 * n if n else 2
            for cap in caps_around(req, rng, 12):
                k += 1
                out.append((U.c_sized(U.OP_HEX, 0, k % 6 == 0, auto, k % 9 != 0, data, cap),
                            M("sized", "cvt_bin2hex", lcls(n) + "/auto%d" % auto, relc(cap, req))))
        hx = data.hex().encode()
        forms = [("lower", hx), ("upper", hx.upper()), ("odd", hx[:-1] if hx else b"f"),
                 ("junk", U.interleave(rng, hx, b" :-\r\nxg\x00\xff", 1, 3))]
        for kind, t in forms:
            digits = sum(1 for b in t if chr(b) in "0123456789abcdefABCDEF")
            req = max(digits // 2, len(t) // 2)
            for auto in (0, 1):
                for cap in caps_around(req, rng, 8):
                    k += 1
                    out.append((U.c_sized(U.OP_HEX, 1, k % 6 == 0, auto, k % 9 != 0, t, cap),
                                M("sized", "cvt_hex2bin", lcls(len(t)) + "/" + kind + "/auto%d" % auto, relc(cap, req))))
    return out


def gen_num2str(rng, S):
    out = []
    k = 0
    for ti in range(10):
        lo, hi = U.type_range(ti)
        vals = U.interesting_values(ti) + [rng.range(lo, hi) for _ in range(12 * S)]
        vals += [rng.range(0, min(hi, 10 ** rng.range(1, 19))) for _ in range(8 * S)]
        for v in vals:
            vc = U.value_class(v, ti)
            req = len(str(v)) + 1
            for ustr in (0, 1):
                fn = ti * 2 + ustr
                if vc in ("pos", "neg", "pow10-adjacent") and req > 4:
                    caps = [0, 1, req - 1, req, req + 1]
                elif vc in ("pow10", "type-min") and (ustr or req > 4):
                    caps = [req - 2, req - 1, req, req + 1] if not ustr else [req - 1, req]
                else:
                    caps = list(range(0, req + 2))
                for cap in caps:
                    k += 1
                    out.append((U.c_num2str(fn, k % 5 == 0, v, cap),
                                M("sized", U.num2str_name(fn), "digits%d" % (req - 1) + "/" + vc, relc(cap, req),
                                  vc if vc in ("pow10", "type-min") else "",
                                  keyfn="SNUM2STR" if ti >= 5 else "UNUM2STR", site=False)))
    return out


def gen_str2num(rng, S):
    out = []
    texts = [b"", b"0", b"1", b"-1", b"+1", b"--1", b"-+-5", b"12a34", b" 42 ", b"\x00\x001", b"\xff\xfe9",
             b"9" * 40, b"-" + b"9" * 40, b"18446744073709551615", b"18446744073709551616",
             b"-9223372036854775808", b"9223372036854775808", b"255", b"256", b"-128", b"128", b"-", b"+",
             b"ffffffffffffffff", b"FFFFFFFFFFFFFFFF0", b"-7fffffff", b"0x1F", b"deadBEEF", b"g", b"-80000000"]
    for ti in range(10):
        for v in U.interesting_values(ti):
            texts.append(str(v).encode())
            texts.append(("%x" % abs(v)).encode())
    for _ in range(60 * S):
        n = rng.range(1, 48)
        alpha = rng.choice([b"0123456789", b"0123456789-+", b"0123456789abcdefABCDEF-+ xg", bytes(range(256))])
        texts.append(bytes(rng.choice(alpha) for _ in range(n)))
    k = 0
    for t in texts:
        for base in (0, 1):
            fns = range(20) if len(t) < 24 or k % 3 == 0 else [rng.below(20)]
            for fn in fns:
                k += 1
                out.append((U.c_str2num(base, fn, t), M("value", U.str2num_name(base, fn), lcls(len(t)), "", "")))
    return out


UTF8_PIECES = [b"a", b"\x7f", b"\x00", b"\xc2\xa9", b"\xdf\xbf", b"\xe2\x82\xac", b"\xef\xbf\xbd", b"\xf0\x9f\x98\x80",
               b"\xf4\x8f\xbf\xbf", b"\xc0\x80", b"\xc1\xbf", b"\xe0\x80\x80", b"\xed\xa0\x80", b"\xf4\x90\x80\x80",
               b"\xf8\x88\x80\x80\x80", b"\xff", b"\xfe", b"\x80", b"\xbf", b"\xe2\x82", b"\xf0\x9f", b"\xc2"]


def gen_utf8(rng, S):
    out = []
    k = 0
    seqs = [p for p in UTF8_PIECES] + [bytes([b]) for b in range(256)]
    for _ in range(120 * S):
        seqs.append(b"".join(rng.choice(UTF8_PIECES) for _ in range(rng.range(1, 20))))
    for _ in range(30 * S):
        seqs.append(rng.bytes(rng.range(1, 300)))
    seqs.append(b"")
    for s in seqs:
        n = len(s)
        for cap in (caps_around(n, rng, 6) if n < 40 else [0, 1, n // 4, n, n + 1]):
            k += 1
            out.append((U.c_utf8(k % 6 == 0, s, cap), M("canary", "utf8_decode", lcls(n), relc(cap, n))))
    return out


def asn_tlv(rng, depth=0):
    cls = rng.below(4)
    cons = rng.chance(1, 3) and depth < 4
    if cls == 0:
        tag = rng.choice([1, 2, 3, 4, 5, 6, 12, 16, 17, 19, 22, 23, 30] if not cons else [16, 17, 3, 4, 8, 11])
    else:
        tag = rng.below(31)
    content = b""
    if cons:
        for _ in range(rng.below(4)):
            content += asn_tlv(rng, depth + 1)
    else:
        content = rng.bytes(rng.choice([0, 1, 2, 5, 127, 128, 130, 300]) if depth == 0 else rng.below(20))
    idb = bytes([(cls << 6) | (0x20 if cons else 0) | tag])
    if rng.chance(1, 6):                                   # long-form tag number
        tn = rng.choice([31, 32, 127, 128, 300, 0x3FFF, 1 << 40])
        enc = [tn & 0x7F]
        tn >>= 7
        while tn:
            enc.append(0x80 | (tn & 0x7F))
            tn >>= 7
        idb = bytes([(cls << 6) | (0x20 if cons else 0) | 0x1F]) + bytes(reversed(enc))
    ln = len(content)
    if ln < 128 and not rng.chance(1, 5):
        lb = bytes([ln])
    else:
        raw = ln.to_bytes(max(1, (ln.bit_length() + 7) // 8), "big")
        raw = b"\x00" * rng.below(3) + raw
        lb = bytes([0x80 | len(raw)]) + raw
    return idb + lb + content


def gen_asn1(rng, S):
    out = []
    bufs = [b"", b"\x00", b"\x30", b"\x30\x00", b"\x04\x7f", b"\x1f\x7f\x00", b"\x1f\x81", b"\x1f\xff\xff\xff",
            b"\x30\x80\x00\x00", b"\x04\x81", b"\x04\x81\x00", b"\x04\x84\x00\x00\x00\x01\xaa", b"\x04\x89" + b"\x01" * 9 + b"\x00",
            b"\x04\x88" + b"\xff" * 8 + b"\x00", b"\x04\xff", b"\x5f\x20\x01\xaa", b"\x1f\x1f\x01\xaa", b"\x1f\x20\x00"]
    for _ in range(200 * S):
        b = b"".join(asn_tlv(rng) for _ in range(rng.range(1, 3)))
        bufs.append(b)
        for _ in range(3):
            m = bytearray(b)
            r = rng.below(5)
            if r == 0 and m:
                m = m[:rng.below(len(m))]                  # truncation
            elif r == 1 and m:
                m[rng.below(len(m))] = rng.choice([0, 0x7F, 0x80, 0x81, 0x84, 0x88, 0x89, 0xFF, 0x1F, 0x3F])
            elif r == 2 and m:
                m[rng.below(len(m))] ^= 1 << rng.below(8)
            elif r == 3:
                m += rng.bytes(rng.below(4))
            else:
                m = m[:rng.below(len(m) + 1)] + bytes([0x1F]) + bytes(rng.choice([0x81, 0xFF, 0x7F, 0x20]) for _ in range(rng.below(4)))
            bufs.append(bytes(m))
    for b in bufs:
        n = len(b)
        out.append((U.c_asn1(True, 0, b), M("asn1", "asn_parse", lcls(n), "iter")))
        if n < 12 or rng.chance(1, 4):
            out.append((U.c_asn1(False, 0, b), M("asn1", "asn_parse", lcls(n), "no-offset")))
            for off in {n, n + 1, max(0, n - 1), rng.below(n + 1)}:
                out.append((U.c_asn1(True, off, b), M("asn1", "asn_parse", lcls(n), "offset")))
    return out


MEM_FN = ["mem_chr", "mem_chr_off", "mem_chr_ptr", "mem_rchr", "mem_rchr_off", "mem_rchr_ptr", "mem_find",
          "mem_find_off", "mem_find_ptr", "mem_find_stream", "mem_to_lower", "mem_to_upper", "mem_cmp", "mem_cmpn",
          "mem_cmpi", "mem_cmpin", "mem_dup2", "realloc_items"]


def gen_mem(rng, S):
    out = []
    k = 0
    for _ in range(260 * S):
        n = rng.choice([0, 1, 2, 3, 7, 8, 16, 31, 64, rng.range(0, 600)])
        alpha = rng.choice([b"ab", b"abcAB\x00", bytes(range(256))])
        buf = bytes(rng.choice(alpha) for _ in range(n))
        wn = rng.choice([0, 1, 2, 3, 5, n, n + 1, rng.range(0, 12)])
        if n and rng.chance(1, 2) and wn <= n:
            st = rng.below(n - wn + 1)
            what = buf[st:st + wn]
        else:
            what = bytes(rng.choice(alpha) for _ in range(wn))
        ch = rng.choice(alpha)
        pre = rng.choice([0, 0, 1, 5, 16])
        offs = {0, 1, max(0, n - 1), n, n + 1, rng.below(n + 2), (1 << 64) - 1, 1 << 63}
        for sub in range(0, 9):
            if sub in (0, 3, 6):
                k += 1
                out.append((U.c_mem(sub, 0, 0, 0, ch, buf, what), M("none", MEM_FN[sub], lcls(n), "what%d" % min(wn, 4))))
                continue
            for off in offs:
                if sub in (2, 5, 8):
                    if off > pre + n:                       # a pointer argument must stay within [alloc, end]
                        continue
                    rel = "ptr<buf" if off < pre else ("ptr=end" if off == pre + n else "ptr-in")
                    out.append((U.c_mem(sub, 0, pre, off, ch, buf, what), M("none", MEM_FN[sub], lcls(n), rel)))
                else:
                    rel = "off<n" if off < n else ("off=n" if off == n else "off>n")
                    out.append((U.c_mem(sub, 0, 0, off, ch, buf, what), M("none", MEM_FN[sub], lcls(n), rel)))
        # stream search: chunk the buffer
        if wn:
            chunks = []
            left = n
            while left > 0 and len(chunks) < 200:
                c = rng.choice([1, 1, 2, 3, rng.range(1, 40)])
                chunks.append(c)
                left -= c
            out.append((U.c_mem(9, 0, 0, 0, 0, buf, what, chunks), M("none", "mem_find_stream", lcls(n), "what%d" % min(wn, 4))))
        for sub in (10, 11):
            k += 1
            out.append((U.c_mem(sub, k % 4 == 0, 0, 0, 0, buf), M("memcase", MEM_FN[sub], lcls(n), "")))
        for sub in (12, 13, 14, 15):
            out.append((U.c_mem(sub, 0, 0, 0, 0, buf, what), M("none", MEM_FN[sub], lcls(n), "eq" if n == wn else "ne")))
        out.append((U.c_mem(16, 0, 0, rng.below(64), 0, buf), M("none", "mem_dup2", lcls(n), "")))
        out.append((U.c_mem(17, 0, rng.below(200), rng.below(16), rng.below(16), b""), M("none", "realloc_items", "n0", "")))
    return out


def gen_stream(rng, S):
    """mem_find_stream: self-overlapping patterns over a two-letter alphabet, fed in tiny chunks so that a
    partial match is carried across chunk borders and has to be re-aligned ("aaab" in "aaa"+"ab")."""
    out = []
    for _ in range(2500 * S):
        wn = rng.range(1, 7)
        what = bytes(rng.choice(b"ab") for _ in range(wn))
        n = rng.range(1, 40)
        if rng.chance(1, 2):
            buf = bytearray(rng.choice(b"ab") for _ in range(n))
            if n > wn:
                st = rng.below(n - wn)
                buf[st:st + wn] = what
            buf = bytes(buf)
        else:
            buf = bytes(rng.choice(b"ab") for _ in range(n))
        chunks = []
        left = n
        while left > 0:
            c = rng.choice([1, 1, 2, 3, rng.range(1, 8)])
            chunks.append(c)
            left -= c
        out.append((U.c_mem(9, 0, 0, 0, 0, buf, what, chunks), M("none", "mem_find_stream", lcls(n) + "/what%d" % wn,
                                                                 "chunks%d" % min(len(chunks), 9))))
    return out


def gen_replace(rng, S):
    out = []
    k = 0
    for _ in range(90 * S):
        alpha = rng.choice([b"ab", b"abc<>&", bytes(range(32, 127))])
        n = rng.choice([0, 1, 2, 5, 17, rng.range(0, 400)])
        src = bytes(rng.choice(alpha) for _ in range(n))
        cnt = rng.choice([0, 1, 2, 3, 5, 31, 32, 40])
        pairs = []
        for _ in range(cnt):
            a = bytes(rng.choice(alpha) for _ in range(rng.choice([0, 1, 1, 2, 3])))
            b = bytes(rng.choice(alpha) for _ in range(rng.choice([0, 1, 2, 4, 9])))
            # keep the pattern set prefix-free: two patterns matching at the same position would make the
            # result depend on an undocumented tie-break, and the expected final size ambiguous
            if a and any(p and (p.startswith(a) or a.startswith(p)) for p, _ in pairs):
                a = b""
            pairs.append((a, b))
        use_tmp = cnt > 31 or rng.chance(1, 4)
        if cnt > 31 and rng.chance(1, 8):
            use_tmp = False                                 # documented: EINVAL, nothing touched
        final = len(replace_model(src, pairs)) if (cnt <= 31 or use_tmp) else 0
        grows = "grow" if final > n else ("shrink" if final < n else "same")
        for cap in (caps_around(final, rng, 8) + [n, n + 1]):
            k += 1
            rel = relc(cap, final)
            out.append((U.c_replace(k % 5 == 0, src, pairs, cap, use_tmp),
                        M("sized", "mem_replace_arr", lcls(n) + "/pairs%d/%s" % (min(cnt, 32), grows), rel,
                          "cap<final" if cap < final else "cap>=final")))
    return out


def gen_xmlcodec(rng, S):
    out = []
    k = 0
    strs = [b"", b"&", b"<", b">", b"'", b'"', b"a", b"&&", b"a&b", b"&amp;", b"&lt;&gt;", b"&amp;lt;", b"&amp", b"&;",
            b"<>&'\"", b"x" * 64, b"&" * 40, b"&apos;" * 9, b"&quot;&gt;tail", b"tail&gt;"]
    for _ in range(36 * S):
        n = rng.range(1, 120)
        alpha = rng.choice([b"&<>'\"", b"&<>'\"ab ;", b"&<>'\"abcdefghijklmnopqrstuvwxyz;#0123456789 \n"])
        strs.append(bytes(rng.choice(alpha) for _ in range(n)))
    for _ in range(3 * S):
        strs.append(bytes(rng.choice(b"&<>'\"abcdefghij ") for _ in range(rng.range(300, 5000))))
    for s in strs:
        enc = U.xml_escape(s)
        for sub, src, pairs in ((0, s, XML_ENC_PAIRS), (1, enc, XML_DEC_PAIRS), (1, s, XML_DEC_PAIRS)):
            final = len(replace_model(src, pairs))
            n = len(src)
            grows = "grow" if final > n else ("shrink" if final < n else "same")
            caps = set(caps_around(final, rng, 5)) | {n}
            for cap in sorted(caps):
                k += 1
                out.append((U.c_sized(U.OP_XMLCODEC, sub, k % 5 == 0, 0, k % 10 != 0, src, cap),
                            M("sized", "xml_encode" if sub == 0 else "xml_decode", lcls(n) + "/" + grows, relc(cap, final),
                              "cap<final" if cap < final else "cap>=final", keyfn="mem_replace_arr")))
    return out


XML_NAMES = [b"a", b"b", b"item", b"root", b"ns:a", b"x:item", b"_t", b"A"]


def xml_doc(rng, depth=0):
    """returns (bytes, list of tag paths present)"""
    name = rng.choice(XML_NAMES)
    attr = b""
    if rng.chance(1, 3):
        attr = b" " + rng.choice([b'k="v"', b"k='<'", b'  x = "1"  ', b"\tq"])
    if rng.chance(1, 6):
        return b"<" + name + attr + rng.choice([b"/>", b" />"]), [[name]]
    body = b""
    paths = [[name]]
    for _ in range(rng.below(3) if depth < 3 else 0):
        r = rng.below(6)
        if r == 0:
            body += rng.choice([b"text", b"123", b" -45 ", b"&amp;", b""])
        elif r == 1:
            body += rng.choice([b"<!-- c -->", b"<!---->", b"<![CDATA[ <x> ]]>", b"<?pi ?>", b"<!DOCTYPE x>", b"<>", b"</>"])
        else:
            d, p = xml_doc(rng, depth + 1)
            body += d
            paths += [[name] + q for q in p]
    if not body:
        body = rng.choice([b"", b"42", b"<![CDATA[7]]>", b"v"])
    return b"<" + name + attr + b">" + body + b"</" + name + b">", paths


def strip_ns(t):
    return t.split(b":", 1)[1] if b":" in t else t


def gen_xmlget(rng, S):
    out = []
    fixed = [b"", b"<", b"a<", b"<a", b"<a>", b"</a>", b"</a></a>", b"<a></a>", b"<a>1</a>", b"<a>1</a> ", b"<a/>", b"<a />",
             b"<!", b"<!-", b"<!--", b"<!-- x", b"<![CDATA[", b"<![CDATA[x]]", b"<?", b"<?x?", b"<!DOCTYPE", b"<!DOCTYPE a",
             b"<>", b"<></>", b"</>", b"<a><b>1</b></a>", b"<a><b>1</b></a><a><b>2</b></a>", b"<a><![CDATA[x]]></a>",
             b"<a><![CDATA[x</a>", b"<ns:a>1</ns:a>", b"<a k='v'>1</a>", b"<a \t>1</a\n>", b"<a>1</b></a>", b"<a><a>1</a></a>"]
    docs = [(d, [[b"a"], [b"a", b"b"], [b"b"]]) for d in fixed]
    for _ in range(36 * S):
        pre = rng.choice([b"", b"<?xml version='1.0'?>", b"<!-- hdr -->\n", b"  "])
        d, paths = xml_doc(rng)
        post = rng.choice([b"", b"", b"\n", b"<"])
        docs.append((pre + d + post, paths))
    cases = []
    for d, paths in docs:
        muts = [d]
        if len(d) <= 24:
            muts += [d[:i] for i in range(len(d))]          # truncation at every byte
        else:
            muts += [d[:rng.below(len(d))] for _ in range(4)]
        for _ in range(3):
            m = bytearray(d)
            if m:
                r = rng.below(4)
                if r == 0:
                    m[rng.below(len(m))] = rng.choice(b"<>/!?-[] ")
                elif r == 1:
                    del m[rng.below(len(m))]
                elif r == 2:
                    m.insert(rng.below(len(m) + 1), rng.choice(b"<>/!"))
                else:
                    m = bytearray(b"</" + rng.choice(XML_NAMES) + b">") + m   # closing tag first
            muts.append(bytes(m))
        for m in muts:
            p = rng.choice(paths)[:3]
            if rng.chance(1, 5):
                p = [rng.choice(XML_NAMES) for _ in range(rng.range(1, 3))]
            cases.append((m, p))
    k = 0
    for m, p in cases:
        n = len(m)
        k += 1
        sub = (0, 1, 2)[k % 3]
        tags = [strip_ns(t) for t in p] if sub == 1 else p
        tags = [t if t else b"a" for t in tags]
        fn = ("xml_get_val_arr", "xml_get_val_ns_arr", "xml_get_val_args")[sub]
        npm = (1, 1, 0, 2)[k % 4]
        npo = rng.below(n + 2)
        out.append((U.c_xmlget(sub, m, tags, npm, npo, 6),
                    M("xmlget", fn, lcls(n) + "/tags%d" % len(tags), ("np-null", "np-iter", "np-offset")[npm])))
        if k % 9 == 0:
            s2 = 4 + (k // 9) % 6
            fn2 = ("xml_get_val_size_t_args", "xml_get_val_ssize_t_args", "xml_get_val_uint32_args",
                   "xml_get_val_int32_args", "xml_get_val_uint64_args", "xml_get_val_int64_args")[s2 - 4]
            if n:
                out.append((U.c_xmlget(s2, m, tags[:2], 1, 0, 1), M("xmlget", fn2, lcls(n) + "/tags%d" % len(tags[:2]), "typed")))
    # namespace-aware extractor on unbalanced markup: opened with a prefix, closed with none / a shorter / another one, the
    # close tag being the last thing in the (exact-size) input
    for pre in (b"ns", b"abc", b"prefix9"):
        for name in (b"a", b"ab", b"item"):
            for close in (b"</" + name + b">", b"</x:" + name + b">", b"</" + pre[:1] + b":" + name + b">", b"</" + name, b"</" + pre + b":" + name + b">"):
                for tail in (b"", b" "):
                    d = b"<" + pre + b":" + name + b">v" + close + tail
                    out.append((U.c_xmlget(1, d, [name], 1, 0, 6), M("xmlget", "xml_get_val_ns_arr", lcls(len(d)) + "/tags1", "ns-unbalanced")))
                    d2 = b"<r><" + pre + b":" + name + b" k=\"1\">v" + close + tail
                    out.append((U.c_xmlget(1, d2, [b"r", name], 1, 0, 6), M("xmlget", "xml_get_val_ns_arr", lcls(len(d2)) + "/tags2", "ns-unbalanced")))
    # xml_calc_tag_count_args drives the cursor protocol itself; documents whose last element ends
    # at the last byte are the natural case, so a few of each kind
    cnt_docs = [b"<a>1</a>", b"<a>1</a> ", b"<a>1</a><a>2</a>\n", b"<r><a>1</a><a>2</a></r>", b"<r><a>1</a></r>\n",
                b"<a/>", b"<a/> ", b"<b>1</b>", b"<a>", b"<"]
    for d in cnt_docs[: (10 if S > 1 else 6)]:
        for p in ([b"a"], [b"r", b"a"]):
            out.append((U.c_xmlget(3, d, p, 0, 0, 1), M("xmlget", "xml_calc_tag_count_args", lcls(len(d)) + "/tags%d" % len(p),
                                                          "ends-at-last-byte" if d.endswith(b">") else "trailing")))
    return out


def ini_text(rng):
    lines = []
    for _ in range(rng.below(12)):
        r = rng.below(8)
        if r == 0:
            lines.append(b"[" + rng.choice([b"s", b"sec", b"S", b"", b"a]b", b"vrf"]) + rng.choice([b"]", b"]", b"", b"] x"]))
        elif r == 1:
            lines.append(rng.choice([b";c", b"#c", b"", b"   ", b"novalue", b"=", b"=v", b"k="]))
        else:
            lines.append(rng.choice([b"a", b"b", b"key", b"K", b"i", b"u"]) + b"=" + bytes(rng.choice(b"xyz 01=[];") for _ in range(rng.choice([0, 1, 3, 15, 16, 17, 40]))))
    eol = rng.choice([b"\r\n", b"\n", b"\r\n", b"\n\r"])
    t = eol.join(lines)
    if rng.chance(1, 2):
        t += eol
    return t


def gen_ini(rng, S):
    out = []
    k = 0
    for _ in range(110 * S):
        t = ini_text(rng)
        r = rng.below(5)
        if r == 0 and t:
            t = t[:rng.below(len(t))]
        elif r == 1:
            t = t + rng.bytes(rng.below(6))
        sets = []
        for _ in range(rng.below(5)):
            sets.append((rng.choice([b"s", b"sec", b"new", b"vrf"]), rng.choice([b"a", b"key", b"i", b"nw", b"K"]),
                         bytes(rng.choice(b"vV0 ") for _ in range(rng.choice([0, 1, 5, 14, 15, 16, 17, 18, 33, 64, 200])))))
        # sufficient capacities first: the first insufficient one may end the case (defect on the pinned tree)
        under = [(1, -1), (1, -2), (0, 1), (0, 2), (1, -rng.range(1, 40))]
        rng.shuffle(under)
        caps = [(0, 0), (1, 0), (1, 1), (1, rng.range(2, 20))] + under
        k += 1
        out.append((U.c_ini(k % 5 == 0, t, sets, caps), M("ini", "ini", lcls(len(t)) + "/sets%d" % len(sets), "")))
    # one value rewritten several times with growing text: past the allocation padding (the line is reallocated and moves),
    # then by 1..15 bytes more (must not be written in place into a block that did not get the padding)
    for g in range(1, 16):
        for first in (1, 17):
            big = first + 16 + rng.range(8, 40)
            sets = [(b"s", b"k", b"v" * first), (b"s", b"k", b"w" * big), (b"s", b"k", b"x" * (big + g))]
            if g % 3 == 0:
                sets.insert(1, (b"s", b"other", b"o" * 20))      # another line allocated in between
            out.append((U.c_ini(0, b"[s]\nk0=1\n", sets, [(0, 0), (1, 0), (1, 1), (1, -1)]),
                        M("ini", "ini", "regrow+%d" % g, "value-regrow")))
    # growth of the line array across its allocation steps (64 slots): stores of 60..68 and 124..132 lines, then sets
    # that add one line (new value) or two lines at once (new section + new value)
    for nl in list(range(60, 69)) + list(range(124, 133)):
        for variant in range(2 if S == 1 else 4):
            lines = [b"[main]"] + [b"k%d=%d" % (i, i) for i in range(nl - 1)]
            t = b"\n".join(lines) + b"\n"
            if variant % 2:
                sets = [(b"fresh", b"nw", b"v"), (b"fresh", b"nw2", b"vv"), (b"other", b"a", b"")]
            else:
                sets = [(b"main", b"added", b"v"), (b"fresh", b"nw", b"v"), (b"main", b"added2", b"")]
            if variant >= 2:
                sets = sets[::-1]
            caps = [(0, 0), (1, 0), (1, 1), (1, -1), (0, 1)]
            out.append((U.c_ini(0, t, sets, caps), M("ini", "ini", "lines%d/sets%d" % (nl, len(sets)), "array-growth")))
    return out


def bt_val(rng, depth=0):
    r = rng.below(6 if depth < 5 else 2)
    if r == 0:
        s = rng.bytes(rng.choice([0, 1, 3, 10, 40]))
        return str(len(s)).encode() + b":" + s
    if r == 1:
        return b"i" + str(rng.choice([0, -1, 1, 852, -(1 << 63), (1 << 63) - 1, 1 << 64])).encode() + b"e"
    if r in (2, 3):
        return b"l" + b"".join(bt_val(rng, depth + 1) for _ in range(rng.range(1, 4))) + b"e"
    items = b""
    for _ in range(rng.range(1, 3)):
        kname = bytes(rng.choice(b"abk") for _ in range(rng.range(1, 3)))
        items += str(len(kname)).encode() + b":" + kname + bt_val(rng, depth + 1)
    return b"d" + items + b"e"


def gen_bt(rng, S):
    out = []
    fixed = [b"", b"e", b"l", b"d", b"i", b"ie", b"i1e", b"i1", b"4:spam", b"4:spam ", b"4:spa", b"0:", b"0: ", b":", b"1", b"01:a ",
             b"le", b"de", b"li1e", b"li1ee", b"li1ee ", b"l4:spam4:eggse", b"d1:ai1e", b"d1:ai1ee", b"d1:ai1ee ", b"di1ei2ee", b"d1:a",
             b"d1:ae", b"lli1eee", b"l" * 50, b"l" * 50 + b"i1e" + b"e" * 50, b"d1:ad1:ad1:ai1eeee ",
             b"99999999999999999999:a", b"9223372036854775807:a", b"18446744073709551615:", b"l18446744073709551615:e"]
    bufs = list(fixed)
    for _ in range(200 * S):
        v = bt_val(rng)
        bufs.append(v)
        bufs.append(v + b" ")
        for _ in range(2):
            m = bytearray(v)
            r = rng.below(4)
            if r == 0:
                m = m[:rng.below(len(m) + 1)]
            elif r == 1 and m:
                m[rng.below(len(m))] = rng.choice(b"0123456789:eild-")
            elif r == 2:
                m = bytearray(b"l") + m
            else:
                m = m + bytearray(b"e")
            bufs.append(bytes(m))
    bufs.append(b"l" * 2000 + b"i1e" + b"e" * 2000)          # deep but bounded nesting
    bufs.append(b"d1:a" * 1500 + b"i1e" + b"e" * 1500)
    for b in bufs:
        out.append((U.c_bt(b, rng.choice([b"a", b"k", b"ab", b"zz"]), rng.chance(1, 8)),
                    M("bt", "bt_en_decode", lcls(len(b)), "deep" if len(b) > 1000 else "")))
    # huge length prefixes: lengths whose sum with the header size wraps around 2^64
    ks = [0, 1, 2, 20, 21, 22, 23] if S == 1 else list(range(0, 28))
    for kk in ks:
        for shape in (b"l%d:e", b"%d:", b"d%d:i1ee", b"li1e%d:e"):
            b = shape % ((1 << 64) - kk)
            out.append((U.c_bt(b, b"a"), M("bt", "bt_en_decode", lcls(len(b)), "len-wrap")))
    return out


def gen_args(rng, S):
    out = []
    fixed = [b"", b" ", b"a", b"a ", b" a", b"a b", b"a b ", b'"', b'""', b'"a', b'"a b"', b'"a b" c', b'a "b', b"\t\ta\t", b'a""b',
             b'"a"b"', b"a\x00b c"]
    bufs = list(fixed)
    for _ in range(160 * S):
        n = rng.range(1, 60)
        bufs.append(bytes(rng.choice(b'ab \t"') for _ in range(n)))
    bufs.append(bytes(rng.choice(b"ab ") for _ in range(3000)))
    k = 0
    for b in bufs:
        words = len(b.split())
        for ma in {0, 1, 2, words, words + 1, 64}:
            k += 1
            ends = "arg-at-last-byte" if b and b[-1:] not in (b" ", b"\t") else "space-at-end"
            out.append((U.c_args(k % 4 == 0, b, ma), M("args", "buf2args", lcls(len(b)), ends + ("/max0" if ma == 0 else ""))))
    return out


def gen_line(rng, S):
    out = []
    fixed = [b"", b"\n", b"\r", b"\r\n", b"a", b"a\n", b"a\r\n", b"a\r", b"\n\n", b"\r\r\n", b"a\nb", b"a\r\nb\r\n", b"\n\r\n\r", b"a\n\rb",
             b"ab\r", b"a\n\r", b"a\r\r", b"ab\r\n\r", b"a \r"]
    bufs = list(fixed)
    for _ in range(150 * S):
        bufs.append(bytes(rng.choice(b"ab\r\n \t") for _ in range(rng.range(1, 80))))
    bufs.append(bytes(rng.choice(b"a\n") for _ in range(5000)))
    for bi, b in enumerate(bufs):
        out.append((U.c_line(0, b), M("line", "buf_get_next_line", lcls(len(b)), "")))
        # continuation from a slice the caller cut itself (trimmed line, slice ending right before a CR/LF or at the end):
        # every (offset, size) for the short buffers, slices ending near each line end and at the buffer end for the others
        if 0 < len(b) <= 6:
            sl = [(o, z) for o in range(len(b) + 1) for z in range(len(b) - o + 1)]
        elif 0 < len(b) <= 80:
            ends = {len(b), len(b) - 1, len(b) - 2} | {i + d for i, c in enumerate(b) if c in (10, 13) for d in (-1, 0, 1)}
            sl = []
            for e in sorted(x for x in ends if 0 <= x <= len(b)):
                o = rng.below(e + 1)
                sl.append((o, e - o))
            sl = sl[:12]
        else:
            sl = []
        for o, z in sl:
            out.append((U.c_line(5, b, o, z), M("line", "buf_get_next_line", lcls(len(b)), "", "caller-slice")))
        for sub, fn in ((1, "calc_sptab_count"), (2, "calc_sptab_count_r"), (3, "calc_non_sptab_count"), (4, "calc_non_sptab_count_r")):
            out.append((U.c_line(sub, b), M("none", fn, lcls(len(b)), "")))
    return out


def gen_crc(rng, S):
    out = []
    k = 0
    for n in range(0, 301):
        data = rng.bytes(n)
        for var in range(8):
            k += 1
            if (k + n) % (2 if S == 1 else 1) != 0 and n not in (0, 1, 63, 64, 65, 300):
                continue
            chunks = []
            if k % 3:
                left = n
                while left > 0 and len(chunks) < 8:
                    c = rng.choice([0, 1, 63, 64, 65, rng.range(1, left)])
                    chunks.append(c)
                    left -= min(c, left)
            out.append((U.c_crc(var, k % 8, data, chunks), M("none", crc_oracle.CATALOGUE[var][0], lcls(n), "align%d" % (k % 8))))
    return out


def gen_misc(rng, S):
    out = []
    k = 0
    for _ in range(60 * S):
        a = rng.bytes(rng.choice([0, 1, 2, 7, 64, rng.range(0, 300)]))
        b = rng.bytes(rng.choice([0, 1, 3, len(a), len(a) + 1]))
        out.append((U.c_misc(0, 0, 0, 0, a), M("none", "data_xor8", lcls(len(a)), "")))
        out.append((U.c_misc(1, 0, 0, 0, a, b), M("none", "memxorbuf", lcls(len(a)), "src%d" % min(len(b), 4))))
        out.append((U.c_misc(3, 0, rng.bits(32), 0, rng.choice([b"", b"y", b"N", b"1", b"0", b"x", b"true"])), M("none", "yn_set_flag32", "n0", "")))
    for t in [0, 59, 60, 3599, 86399, 86400, 10 ** 9, (1 << 31) - 1, (1 << 62), (1 << 64) - 1] + [rng.bits(40) for _ in range(10 * S)]:
        ut = t
        text = "%d+%02d:%02d:%02d" % (ut // 86400, ut % 86400 // 3600, ut % 3600 // 60, ut % 60)
        req = len(text) + 1
        for cap in range(0, req + 2):
            k += 1
            out.append((U.c_misc(2, k % 4 == 0, t, cap), M("canary", "fmt_as_uptime", "len%d" % len(text), relc(cap, req))))
    return out


FAMILIES = [
    # name, generator, shards (quick), workload scale in the quick tier (thorough = 12x that, 4x the shards)
    ("b64enc", gen_b64enc, 1, 1), ("b64dec", gen_b64dec, 3, 1), ("hex", gen_hex, 1, 2), ("num2str", gen_num2str, 4, 1),
    ("str2num", gen_str2num, 3, 2), ("utf8", gen_utf8, 1, 3), ("asn1", gen_asn1, 2, 1), ("mem", gen_mem, 2, 3),
    ("stream", gen_stream, 1, 2), ("replace", gen_replace, 2, 1), ("xmlcodec", gen_xmlcodec, 3, 1),
    ("xmlget", gen_xmlget, 3, 1), ("ini", gen_ini, 2, 1), ("bt", gen_bt, 3, 1), ("args", gen_args, 2, 1),
    ("line", gen_line, 1, 3), ("crc", gen_crc, 1, 1), ("misc", gen_misc, 1, 3),
]
FAM = {n: (g, q) for n, g, _, q in FAMILIES}
THOROUGH_SCALE = 12
THOROUGH_SHARDS = 4


def family_cases(fam, tier):
    g, q = FAM[fam]
    return g(Rng(common.seed(), PROP, fam), q if tier == "quick" else q * THOROUGH_SCALE)


# ---------------------------------------------------------------------------
# evaluation
# ---------------------------------------------------------------------------
def _viol(vlist, key, expected, observed):
    vlist.append((key, expected, observed))


def _canary_keys(fn, bits, detail, vlist, where=""):
    d = (":" + detail) if detail else ""
    if bits & 1:
        _viol(vlist, "canary:%s:write-before-buffer%s" % (fn, d), "canary frame before the output buffer untouched" + where, "changed")
    if bits & 2:
        _viol(vlist, "canary:%s:write-after-buffer%s" % (fn, d), "canary frame after the output buffer untouched" + where, "changed")


def evaluate(case, meta, res):
    """returns (outcome label, [ (key, expected, observed) ], [observation keys])"""
    fn, ev, detail = meta["fn"], meta["ev"], meta.get("detail", "")
    kfn = meta.get("keyfn", fn)           # name used in keys when several entry points share one implementation
    viol, obsv = [], []
    if isinstance(res, Crash):
        if res.kind == "hang":
            _viol(viol, U.crash_key(res, fn, ""), "terminates within the CPU budget",
                  "per-case CPU-time alarm (%s s)" % CASE_SECS)
            return "hang", viol, obsv
        if res.kind == "asan":
            if "sized_second_call" in (res.report or ""):
                detail = meta.get("detail2", detail)      # the retry with exactly the reported size crashed
            key = U.crash_key(res, kfn, detail, meta.get("site", True))
            if "stack-overflow" in key and meta.get("rel") == "deep":
                obsv.append(key)
                return "stack-overflow", viol, obsv
            _viol(viol, key, "no access outside the buffers passed", (res.report or "")[:1800])
            return "asan:" + ":".join(key.split(":")[2:4]), viol, obsv
        if res.kind == "ubsan":
            key = U.crash_key(res, fn, "")
            if U.ubsan_is_bounds(res):
                _viol(viol, key, "no out-of-bounds index", (res.report or "")[:1500])
                return "ubsan-bounds", viol, obsv
            obsv.append(key)
            return "ubsan-other", viol, obsv
        if res.kind == "exit":
            raise U.BadObs("driver exited rc=%s without a sanitizer report: %s" % (res.returncode, (res.report or "")[-300:]))
        _viol(viol, "crash:%s:%s:rc=%s" % (fn, res.kind, res.returncode), "driver completes the case", (res.report or "")[-800:])
        return "crash", viol, obsv
    if ev == "sized":
        d = U.p_sized(res)
        _canary_keys(kfn, d["canary"], detail, viol)
        out = "ok" if d["rc"] == 0 else "err%d" % d["rc"]
        cap = len(d["buf"])
        if d["rc"] == 0 and d["ret"] is not None and d["ret"] > cap and not viol:
            _viol(viol, "contract:%s:reported-length-exceeds-capacity" % kfn, "reported length <= capacity %d" % cap, "reported %d" % d["ret"])
        s = d["second"]
        if s is not None:
            out += "+retry"
            _canary_keys(kfn, s["canary"], meta.get("detail2", detail), viol, " (buffer of exactly the reported size)")
            if s["rc"] != 0:
                _viol(viol, "contract:%s:reported-size-insufficient" % kfn,
                      "call with a buffer of exactly the reported size %d succeeds" % len(s["buf"]), "rc=%d" % s["rc"])
                out += "-fail"
        if fn in ("xml_decode", "xml_encode", "mem_replace_arr") and d["rc"] == U.ENOBUFS and meta["rel"] in ("cap=req", "cap=req+1", "cap>req+1"):
            obsv.append("refused:%s:ENOBUFS-although-output-fits" % fn)
        return out, viol, obsv
    r = U.rd(res)
    if ev == "value" or ev == "none":
        return "ok", viol, obsv
    if ev == "canary":
        r.u64()
        _canary_keys(fn, r.u8(), detail, viol)
        return "ok", viol, obsv
    if ev == "memcase":
        r.u64()
        _canary_keys(fn, r.u8(), detail, viol)
        return "ok", viol, obsv
    if ev == "asn1":
        out = "none"
        while r.u8() == 1:
            r.u8()
            n = r.u64()
            r.u64()
            rc = r.i32()
            out = "err%d" % rc
            if rc != 0:
                continue
            out = "ok"
            r.u64(); r.u64(); r.u8(); r.u8(); r.u64()
            doff = r.i64()
            dsz = r.u64()
            if doff >= 0 and (doff > n or dsz > n - doff):
                obsv.append("span:asn_parse:data-extends-past-input")
                out = "ok-span-outside"
        return out, viol, obsv
    if ev == "xmlget":
        out = "none"
        n = len(_case_blob(case, "xmlget"))
        while r.u8() == 1:
            rc = r.i32()
            out = "err%d" % rc
            if rc != 0:
                break
            out = "found"
            r.i64()
            for _ in range(2):
                off = r.i64()
                sz = r.u64()
                if off >= 0 and sz != U.SENT and (off > n or sz > n - off):
                    obsv.append("span:%s:attr-or-value-outside-input" % fn)
            if fn == "xml_get_val_ns_arr":
                pass
            break
        return out, viol, obsv
    if ev == "ini":
        if r.i32() != 0:
            return "create-failed", viol, obsv
        prc = r.i32()
        # skip the per-set triples: they are emitted before the fixed tail; parse from the case
        nset = _ini_nset(case)
        for _ in range(nset):
            r.i32(); r.i32(); r.u8()
        r.u64(); r.u64(); r.u32()
        for _ in range(2):
            r.i32(); r.i32(); r.u64()
        crc_ = r.i32()
        req = r.u64()
        ncaps = r.u8()
        out = "parse%d" % prc
        for _ in range(ncaps):
            cap = r.u64()
            rc = r.i32()
            ret = r.u64()
            can = r.u8()
            r.u32()
            _canary_keys("ini_buf_gen", can, "", viol)
            if cap == req and cap > 0 and rc != 0:
                _viol(viol, "contract:ini_buf_gen:calc-size-insufficient", "ini_buf_gen succeeds into ini_buf_calc_size() bytes (%d)" % req, "rc=%d" % rc)
            if rc == 0 and ret != U.SENT and ret > cap and not can:
                _viol(viol, "contract:ini_buf_gen:reported-length-exceeds-capacity", "<= %d" % cap, "%d" % ret)
        return out, viol, obsv
    if ev == "bt":
        rc = r.i32()
        r.u64()
        out = "err%d" % rc
        if rc == 0 and r.u8():
            out = "ok"
            r.u64(); r.u64()
            if r.u64():
                obsv.append("span:bt_en_decode:node-extends-past-input")
                out = "ok-span-outside"
        return out, viol, obsv
    if ev == "args":
        cnt = r.u64()
        _canary_keys(fn, r.u8(), "", viol)
        return "args%d" % min(cnt, 3), viol, obsv
    if ev == "line":
        blob = _case_blob(case, "line")
        n = len(blob)
        spans = []
        while r.u8() == 1:
            spans.append((r.i64(), r.u64()))
        rc = r.i32()
        cnt = r.u64()
        for off, sz in spans:   # every line handed back is a sub-span of the buffer
            if off < 0 or off > n or sz > n - off:
                _viol(viol, "span:buf_get_next_line:line-outside-buffer", "inside [0,%d]" % n, "offset %d size %d" % (off, sz))
                break
        if meta.get("detail") == "caller-slice" and n:
            rr = R(case); rr.u8(); rr.u8(); rr.u8(); rr.blob(); o0 = rr.u32(); z0 = rr.u32()
            want = _next_line_model(blob, o0 + z0)
            got = spans[0] if (rc == 0 and spans) else None
            if (rc == 0) != (want is not None) or (want is not None and got != want):
                _viol(viol, "oracle:buf_get_next_line:wrong-next-line:caller-slice", repr(want), "rc=%d %r (slice %d+%d of %d bytes)" % (rc, got, o0, z0, n))
        if cnt > n + 1:
            _viol(viol, "progress:buf_get_next_line:more-lines-than-bytes", "<= %d lines" % (n + 1), "%d" % cnt)
        return ("caller-slice-" if meta.get("detail") == "caller-slice" else "") + "lines%d" % min(cnt, 3), viol, obsv
    return "ok", viol, obsv


def _next_line_model(b, p):
    """Line following the slice that ends at offset p: skip one CR and/or one LF that are inside the buffer, the line runs
    to the next LF (a CR directly before it is not part of the line) or to the end; None at the end of the buffer."""
    n = len(b)
    if p < n and b[p] == 13:
        p += 1
    if p < n and b[p] == 10:
        p += 1
    if p >= n:
        return None
    e = b.find(b"\n", p)
    if e < 0:
        e = n
    elif e > p and b[e - 1] == 13:
        e -= 1
    return (p, e - p)


def _case_blob(case, kind):
    r = R(case)
    r.u8(); r.u8(); r.u8()
    if kind == "xmlget":
        r.u8(); r.u8(); r.u32(); r.u8()
    return r.blob()


def _ini_nset(case):
    r = R(case)
    r.u8(); r.u8(); r.u8()
    r.blob()
    return r.u8()


# ---------------------------------------------------------------------------
# worker
# ---------------------------------------------------------------------------
def worker(job):
    vname, spec, exe, fam, shard, nsh, tier = job
    part = common.new_part()
    allc = family_cases(fam, tier)
    mine = allc[shard::nsh]
    cases = [c for c, _ in mine]
    results, ub = U.run_cases_obs(exe, cases, args=(CASE_SECS,))
    for k, n in ub.items():
        part["observations"][k + "@" + vname.split("-")[0]] = part["observations"].get(k + "@" + vname.split("-")[0], 0) + n
    if len(results) != len(cases):
        part["inconclusive"].append("%s/%s: %d results for %d cases" % (vname, fam, len(results), len(cases)))
    best = {}                                   # key -> (case, witness) with the shortest case seen here
    for (case, meta), res in zip(mine, results):
        part["evaluations"] += 1
        fn = meta["fn"]
        try:
            outcome, viol, obsv = evaluate(case, meta, res)
        except (U.BadObs, IndexError, struct.error) as e:
            part["inconclusive"].append("%s/%s: unparsable observation for %s: %r" % (vname, fam, fn, e))
            continue
        part["classes"].add("%s|%s|%s|%s" % (fn, meta["lcls"], meta["rel"], outcome))
        common.part_count(part, "fn:" + fn)
        common.part_count(part, "out:%s:%s" % (fn, outcome.split(":")[0]))
        for o in obsv:
            part["observations"][o] = part["observations"].get(o, 0) + 1
        for key, exp, obs_ in viol:
            common.part_count(part, "vc:" + key)
            cur = best.get(key)
            if cur is None or len(case) < len(cur[0]):
                best[key] = (case, {
                    "variant": vname, "build": spec, "family": fam, "fn": fn, "meta": meta, "case": case.hex(),
                    "seed": common.seed(), "expected": exp, "observed": obs_})
        if len(part["samples"]) < 2 and (part["evaluations"] % 97 == 5 or viol):
            part["samples"].append({"fn": fn, "class": [meta["lcls"], meta["rel"]], "outcome": outcome,
                                    "variant": vname, "case_hex": case.hex()[:160]})
    part["violations"] = [(k, w) for k, (c, w) in best.items()]
    return part


def liveness(exe, vname, report):
    """ASan, the canary frames and the CPU alarm must all fire on deliberate faults in driver code."""
    cases = [U.hdr(U.OP_SELFTEST, s, 0).done() for s in (0, 1, 2)]
    res, _ = U.run_cases_obs(exe, cases, args=("1",))
    ok = True
    if not (isinstance(res[0], Crash) and res[0].kind == "asan"):
        report.inconclusive.append("%s: ASan did not report a deliberate 1-byte heap overflow" % vname)
        ok = False
    if isinstance(res[1], Crash) or U.rd(res[1]).u8() != 2:
        report.inconclusive.append("%s: canary frame did not notice a deliberate overflow" % vname)
        ok = False
    if not (isinstance(res[2], Crash) and res[2].kind == "hang"):
        report.inconclusive.append("%s: CPU-time alarm did not fire on a busy loop" % vname)
        ok = False
    return ok


def run(tier):
    report = common.Report(PROP, tier, "exploration")
    fails = crc_oracle.selftest()
    if fails:
        raise common.Inconclusive("crc oracle selftest failed: %s" % fails[:2])
    exes = common.try_builds(report, variants(tier))
    specs = dict(variants(tier))
    if not exes:
        raise common.Inconclusive("no driver variant compiled: %s" % report.builds)
    for must in ("gcc-asu-O1", "clang-asu-O1"):
        if must not in exes:
            report.inconclusive.append("variant %s did not build: %s" % (must, report.builds.get(must)))
    mult = 1 if tier == "quick" else THOROUGH_SHARDS
    jobs = []
    live = {}
    for vname, exe in exes.items():
        live[vname] = "asan+canary+cpu-alarm fired on deliberate driver faults" if liveness(exe, vname, report) else "FAILED"
        for fam, _, nsh, _q in FAMILIES:
            nsh *= mult
            for sh in range(nsh):
                jobs.append((vname, specs[vname], exe, fam, sh, nsh, tier))
    # big families first
    jobs.sort(key=lambda j: -dict((f[0], f[2]) for f in FAMILIES)[j[3]])
    bestw = {}
    for part in common.parallel(worker, jobs):
        for k, w in part["violations"]:
            if k not in bestw or len(w["case"]) < len(bestw[k]["case"]):
                bestw[k] = w
        part["violations"] = []
        report.merge(part)
    for k, w in bestw.items():                  # shortest witness per key, count = number of failing cases
        report.violations[k] = {"count": report.extra.pop("vc:" + k, 1), "witness": w}
    per_fn, outcomes = {}, {}
    for k in list(report.extra):
        if k.startswith("fn:"):
            per_fn[k[3:]] = report.extra.pop(k)
        elif k.startswith("out:"):
            _, fn, o = k.split(":", 2)
            outcomes.setdefault(fn, {})[o] = report.extra.pop(k)
    report.extra["cases_per_function"] = per_fn
    report.extra["outcomes_per_function"] = outcomes
    report.extra["monitor_liveness"] = live
    missing = [f for f in REQUIRED_FUNCS if per_fn.get(f, 0) == 0]
    if missing:
        report.inconclusive.append("anchored functions never executed: %s" % ", ".join(missing))
    report.rule = (
        "Per function family a structure-aware generator (valid encodings, boundary values, documents) plus mutations "
        "(truncation at every byte, delimiter as last byte, length fields beyond the buffer, closing-before-opening) derived from "
        "VERIF_SEED; every input is an exact-size heap block and the output capacity sweeps 0..required+1 (exact heap block or "
        "canary-framed); a failing call that reports a required size is repeated with exactly that size. The same cases run in every "
        "build variant. A case is counted distinct/non-trivial by its behaviour class (function | input length class and shape | "
        "capacity relation to the required size, or pointer/offset position | observed outcome: ok, error code, retry result, "
        "sanitizer kind); distinct_nontrivial is the size of that set, evaluations the number of driver cases executed.")
    report.assumptions = [
        "functions are called inside their documented/tested preconditions: non-NULL pointers where the function does not test them, "
        "sizes describing the buffers actually passed, pointer arguments of mem_*_ptr inside or one past the allocation, "
        "tmp_arr supplied for more than 31 replacement pairs, NUL-terminated tag names only for the varargs xml_*_args forms",
        "ASan red zones catch accesses adjacent to the exact-size blocks; far out-of-bounds accesses landing in another live block "
        "are not seen (canary placement adds 64 bytes either side)",
        "returned (pointer,length) spans that leave the input (asn_parse short-form length, bt_en_decode wrapped string length) are "
        "recorded as observations, not violations: the library itself does not touch them",
        "bencode nesting is capped at 2000 levels (inputs <= 64 KiB); stack exhaustion on deeper nesting is outside this property",
    ]
    return report.finish()


def replay(path):
    with open(path) as fh:
        doc = json.load(fh)
    w = doc["witness"]
    spec = w["build"]
    exe = common.build(**spec)
    case = bytes.fromhex(w["case"])
    res, ub = U.run_cases_obs(exe, [case], args=(CASE_SECS,))
    outcome, viol, obsv = evaluate(case, w["meta"], res[0])
    print("replay %s key=%s variant=%s fn=%s" % (PROP, doc["key"], w["variant"], w["fn"]))
    print("  expected: %s" % w["expected"])
    print("  recorded: %s" % str(w["observed"])[:300].replace("\n", " | "))
    print("  now: outcome=%s keys=%s" % (outcome, [k for k, _, _ in viol]))
    if isinstance(res[0], Crash):
        print((res[0].report or "")[:1500])
    hit = any(k == doc["key"] for k, _, _ in viol)
    print("  reproduced: %s" % hit)
    return 1 if viol else 0
