"""C03 - ECDSA / GOST R 34.10 signatures: complete, sound, standard-conforming; verifiers
never report success when an internal computation failed.

Driver: drivers/c03_ecdsa.c (shared with C09).  Reference: oracles/ecdsa.py.

Oracle, per (curve, byte order, build variant):
  sign      library (r, s) must EQUAL the reference signature for the effective nonce
            k' = rnd if rnd < n else (rnd mod (n-1)) + 1 (bn_mod_reduce, pinned by the
            header's own published vectors) and the standard hash integer;
  verify    library signature accepted by ecdsa_verify_*, ecdsa_verify_priv_key_* and the
            reference verifier; reference signature accepted by the library;
  mutation  for every mutated tuple (hash, r, s, key) accept/reject == reference verdict;
  honesty   (a) bn-level ecdsa_verify / ecdsa_verify_priv_key on over-wide / invalid objects,
            (b) failpoint enumeration through BN_RET_ON_ERR: a verifier must not return 0 in
            a run in which the failpoint fired; a signer returning 0 must emit the reference
            signature.
A sanitizer abort is re-judged by outputs on the matching plain build (DESIGN 3.1).
"""
import json
import os

from verif import common
from verif.common import W, R, Rng
from verif.oracles import ec, ecdsa

PROP = "C03"
DRIVER = "c03_ecdsa.c"
RC_SETUP = 0x7fff0001

OP_SIGN, OP_VERIFY, OP_VERIFY_PRIV, OP_VERIFY_BN, OP_KEYGEN, OP_RECOVER, OP_DH, OP_EXPORT, OP_IMPORT, OP_INFO = range(1, 11)
OP_SIGN_BN, OP_KG_BN, OP_DH_BN, OP_IMPORT_DIRTY = 11, 12, 13, 14
ORDERS = (("be", "big", 0), ("le", "little", 1))

# ---------------------------------------------------------------------------
# build variants (configuration macros exactly as tests/ecdsa/main.c sets them)
# ---------------------------------------------------------------------------
_T64 = ["-DBN_DIGIT_BIT_CNT=64", "-DBN_BIT_LEN=1408", "-DBN_CC_MULL_DIV=1", "-DBN_NO_POINTERS_CHK=1",
        "-DBN_MOD_REDUCE_ALGO=BN_MOD_REDUCE_ALGO_BASIC", "-DEC_USE_PROJECTIVE=1", "-DEC_PROJ_REPEAT_DOUBLE=1",
        "-DEC_PROJ_ADD_MIX=1", "-DEC_PF_FXP_MULT_ALGO=EC_PF_FXP_MULT_ALGO_COMB_2T", "-DEC_PF_FXP_MULT_WIN_BITS=9",
        "-DEC_PF_UNKPT_MULT_ALGO=EC_PF_UNKPT_MULT_ALGO_COMB_1T", "-DEC_PF_UNKPT_MULT_WIN_BITS=2",
        "-DEC_PF_TWIN_MULT_ALGO=EC_PF_TWIN_MULT_ALGO_INTER"]
_NOCHK = ["-DEC_DISABLE_PUB_KEY_CHK=1"]


def _cfg(digits=64, mulldiv=True, proj=True, mix=False, rep=False, fxp="COMB_2T", fw=8, unk="COMB_1T", uw=2,
         twin="JOINT", chk=True, bitlen=2048, extra=()):
    f = ["-DBN_DIGIT_BIT_CNT=%d" % digits, "-DBN_BIT_LEN=%d" % bitlen]
    if mulldiv:
        f.append("-DBN_CC_MULL_DIV=1")
    if proj:
        f.append("-DEC_USE_PROJECTIVE=1")
        if mix:
            f.append("-DEC_PROJ_ADD_MIX=1")
        if rep:
            f.append("-DEC_PROJ_REPEAT_DOUBLE=1")
    f += ["-DEC_PF_FXP_MULT_ALGO=EC_PF_FXP_MULT_ALGO_" + fxp, "-DEC_PF_FXP_MULT_WIN_BITS=%d" % fw,
          "-DEC_PF_UNKPT_MULT_ALGO=EC_PF_UNKPT_MULT_ALGO_" + unk, "-DEC_PF_UNKPT_MULT_WIN_BITS=%d" % uw,
          "-DEC_PF_TWIN_MULT_ALGO=EC_PF_TWIN_MULT_ALGO_" + twin]
    if not chk:
        f += _NOCHK
    return f + list(extra)


QUICK_VARIANTS = [
    # name, flags, cc, public-key checks enabled
    ("t64-nochk", _T64 + _NOCHK, "gcc", False),            # the suite's configuration
    ("t64-chk", _T64, "gcc", True),
    ("defaults", [], "gcc", True),                          # header defaults: affine, COMB_2T/8, JOINT
    ("aff-fxpunk-nochk", _cfg(64, False, proj=False, fxp="COMB_1T", fw=4, unk="SLIDING_WIN", uw=4,
                              twin="FXP_UNKPT", chk=False), "gcc", False),
    ("d32-proj-bin", _cfg(32, True, proj=True, fxp="SLIDING_WIN", fw=4, unk="BIN", uw=2, twin="BIN"), "gcc", True),
    # Jacobian + mixed addition + joint-sparse-form twin multiplication (its table holds G+Q and G-Q: O for Q = -G / Q = G)
    ("proj-mix-joint", _cfg(64, True, True, True, True, "COMB_2T", 8, "COMB_1T", 2, "JOINT"), "gcc", True),
    # binary fixed-point multiplication reports O by flag only (stale coordinates): zero nonce / zero key reach the callers
    ("d64-nomd-bin", _cfg(64, False, True, False, False, "BIN", 2, "BIN", 2, "BIN"), "gcc", True),
]
THOROUGH_EXTRA = [
    # NB: the sliding-window width "must be power of 2" (header comment); 3 or 5 makes the precompute fail
    ("d16-proj-mix-joint", _cfg(16, True, True, True, True, "COMB_1T", 3, "SLIDING_WIN", 2, "JOINT"), "gcc", True),
    ("d128-proj-inter", _cfg(128, True, True, True, False, "COMB_2T", 4, "COMB_1T", 2, "INTER", chk=False), "gcc", False),
    ("d8-proj-bin-nochk", _cfg(8, True, True, True, True, "BIN", 2, "BIN", 2, "BIN", chk=False, bitlen=1408), "gcc", False),
    ("proj-nomix-joint-c2t5", _cfg(64, True, True, False, True, "COMB_2T", 5, "COMB_2T", 5, "JOINT"), "gcc", True),
    ("proj-mix-fxpunk-sw", _cfg(64, True, True, True, False, "SLIDING_WIN", 4, "SLIDING_WIN", 4, "FXP_UNKPT", chk=False), "gcc", False),
    ("proj-precalcdbl", _cfg(64, True, True, True, True, "BIN_PRECALC_DBL", 2, "BIN", 2, "FXP_UNKPT"), "gcc", True),
    ("aff-bin", _cfg(64, True, False, fxp="BIN", fw=2, unk="BIN", uw=2, twin="BIN", chk=False), "gcc", False),
    ("aff-c2t5-joint-d32", _cfg(32, False, False, fxp="COMB_2T", fw=5, unk="COMB_1T", uw=3, twin="JOINT"), "gcc", True),
    ("aff-sw4-d16", _cfg(16, True, False, fxp="SLIDING_WIN", fw=4, unk="SLIDING_WIN", uw=4, twin="BIN", chk=False), "gcc", False),
    ("proj-unk-same-inter", _cfg(64, True, True, True, True, "COMB_1T", 4, "SAME_AS_FXP", 4, "INTER"), "gcc", True),
    ("t64-chk-clang", _T64, "clang", True),
    ("t64-nochk-O3", _T64 + _NOCHK + ["-O3"], "gcc", False),
    ("defaults-d32-nomd", ["-DBN_DIGIT_BIT_CNT=32"], "gcc", True),
    ("d32-proj-mix-inter-nochk", _cfg(32, False, True, True, True, "COMB_2T", 6, "COMB_1T", 2, "INTER", chk=False), "gcc", False),
]


# affine arithmetic, binary multiplication, narrow digits: 5-15x the cost of the suite's configuration;
# these variants get a rotating third of the sign tuples
SLOW_VARIANTS = {"defaults", "aff-fxpunk-nochk", "d32-proj-bin", "d16-proj-mix-joint", "d8-proj-bin-nochk",
                 "d64-nomd-bin", "aff-bin", "aff-c2t5-joint-d32", "aff-sw4-d16", "defaults-d32-nomd",
                 "d32-proj-mix-inter-nochk"}


def variant_table(tier):
    v = list(QUICK_VARIANTS)
    if tier == "thorough":
        v += THOROUGH_EXTRA
    return v


def build_variants(report, tier, san="asu"):
    specs = []
    meta = {}
    for name, flags, cc, chk in variant_table(tier):
        specs.append((name, dict(name="c03_ecdsa", sources=[DRIVER], san=san, cc=cc, flags=flags)))
        meta[name] = {"flags": flags, "cc": cc, "chk": chk, "idx": len(meta),
                      "slow": name in SLOW_VARIANTS}
    exes = common.try_builds(report, specs)
    return exes, meta


def plain_exe(vmeta):
    return common.build("c03_ecdsa", [DRIVER], san="plain", cc=vmeta["cc"], flags=list(vmeta["flags"]) + ["-O1", "-g"])


# ---------------------------------------------------------------------------
# case builders / observation parsing (shared with C09)
# ---------------------------------------------------------------------------
def _hdr(op, ci, le, pat=0x5a, arm=0):
    return W().u8(op).u8(ci).u8(le).u8(pat).u32(arm)


def case_sign(ci, le, h, d, k, kclaim=None, cap_r=None, cap_s=None, nb=0, pat=0x5a, arm=0):
    return _hdr(OP_SIGN, ci, le, pat, arm).blob(h).blob(d).blob(k).u32(len(k) if kclaim is None else kclaim) \
        .u32(nb if cap_r is None else cap_r).u32(nb if cap_s is None else cap_s).done()


def case_verify(ci, le, h, r, s, qx, qy=None, ssz=None, qsz=None, pat=0x5a, arm=0):
    return _hdr(OP_VERIFY, ci, le, pat, arm).blob(h).blob(r).blob(s).u32(len(r) if ssz is None else ssz) \
        .blob(qx).u8(0 if qy is None else 1).blob(qy or b"").u32(len(qx) if qsz is None else qsz).done()


def case_verify_priv(ci, le, h, r, s, d, ssz=None, pat=0x5a, arm=0):
    return _hdr(OP_VERIFY_PRIV, ci, le, pat, arm).blob(h).blob(r).blob(s).u32(len(r) if ssz is None else ssz).blob(d).done()


def _be(v):
    return v.to_bytes((v.bit_length() + 7) // 8, "big") if v else b""


def case_verify_bn(ci, e, r, s, qx, qy, inf=0, which=0, nbits=0, qbits=0, pat=0x5a, arm=0):
    return _hdr(OP_VERIFY_BN, ci, 0, pat, arm).blob(_be(e)).blob(_be(r)).blob(_be(s)).blob(_be(qx)).blob(_be(qy)) \
        .u8(inf).u8(which).u32(nbits).u32(qbits).done()


def case_keygen(ci, le, rnd, compress, has_y, cap_d, cap_x, cap_y, kclaim=None, pat=0x5a, arm=0):
    return _hdr(OP_KEYGEN, ci, le, pat, arm).blob(rnd).u32(len(rnd) if kclaim is None else kclaim).u8(compress).u8(has_y) \
        .u32(cap_d).u32(cap_x).u32(cap_y).done()


def case_recover(ci, le, d, compress, has_y, cap_x, cap_y, pat=0x5a, arm=0):
    return _hdr(OP_RECOVER, ci, le, pat, arm).blob(d).u8(compress).u8(has_y).u32(cap_x).u32(cap_y).done()


def case_dh(ci, le, cof, qx, qy, d, cap, qsz=None, pat=0x5a, arm=0):
    return _hdr(OP_DH, ci, le, pat, arm).u8(cof).blob(qx).u8(0 if qy is None else 1).blob(qy or b"") \
        .u32(len(qx) if qsz is None else qsz).blob(d).u32(cap).done()


def case_export(ci, le, P, compress, has_y, cap_x, cap_y, pat=0x5a, arm=0):
    inf = 1 if P is None else 0
    x, y = (0, 0) if P is None else P
    return _hdr(OP_EXPORT, ci, le, pat, arm).blob(_be(x)).blob(_be(y)).u8(inf).u8(compress).u8(has_y).u32(cap_x).u32(cap_y).done()


def case_import(ci, le, qx, qy=None, qsz=None, pat=0x5a, arm=0, dirty=False):
    return _hdr(OP_IMPORT_DIRTY if dirty else OP_IMPORT, ci, le, pat, arm).blob(qx).u8(0 if qy is None else 1).blob(qy or b"") \
        .u32(len(qx) if qsz is None else qsz).done()


def case_sign_bn(ci, d, Q, alias, steps, preload=None, pat=0x5a, arm=0):
    """bn-level ecdsa_sign(); steps = [(e, rnd), ...] executed on the same output objects."""
    w = _hdr(OP_SIGN_BN, ci, 0, pat, arm).blob(_be(d)).blob(_be(Q[0])).blob(_be(Q[1])).u8(alias).u8(1 if preload else 0)
    w.blob(_be(preload[0]) if preload else b"").blob(_be(preload[1]) if preload else b"").u8(len(steps))
    for e, k in steps:
        w.blob(_be(e)).blob(_be(k))
    return w.done()


def case_kg_bn(ci, mode, dirty, stale, d, cof, d2, pat=0x5a, arm=0):
    sx, sy = stale if stale else (0, 0)
    return _hdr(OP_KG_BN, ci, 0, pat, arm).u8(mode).u8(dirty).blob(_be(sx)).blob(_be(sy)).blob(_be(d)).u8(cof).blob(_be(d2)).done()


def case_dh_bn(ci, Q, cof, d, alias=0, inf=0, pat=0x5a, arm=0):
    x, y = Q if Q is not None else (0, 0)
    return _hdr(OP_DH_BN, ci, 0, pat, arm).blob(_be(x)).blob(_be(y)).u8(1 if (Q is None or inf) else 0).u8(cof).u8(alias).blob(_be(d)).done()


class Obs:
    """Parsed observation head: rc, failpoint calls, fired, function; .r = reader for the rest."""

    def __init__(self, raw):
        self.raw = raw
        r = R(raw)
        self.rc = r.i32()
        self.calls = r.u32()
        self.fired = r.u8()
        self.func = r.blob().decode("latin1")
        self.r = r


def enc_int(v, size, order):
    """v as exactly `size` bytes or None when it does not fit."""
    if v < 0 or v >> (8 * size):
        return None
    return v.to_bytes(size, order)


# ---------------------------------------------------------------------------
# what the pinned library is known to do with the hash (used ONLY to label a
# disagreement with the standard by its cause, never to excuse one)
# ---------------------------------------------------------------------------
def lib_model_e(c, h, order):
    nb = ecdsa.nbytes(c)
    z = int.from_bytes(h[:nb], order)
    e = ecdsa.reduce_rnd(c, z)
    if c.algo == ecdsa.ALGO_GOST and e == 0:
        e = 1
    return e


def hash_cause(c, h, order):
    """Name of the documented-vs-standard difference that applies to hash string h, or None."""
    nb = ecdsa.nbytes(c)
    e_std = ecdsa.hash_to_e(c, h, order)
    if e_std == lib_model_e(c, h, order):
        return None
    if c.algo == ecdsa.ALGO_GOST:
        if len(h) > nb:
            return "gost-long-hash"
        return "hash-ge-n"
    z_lib = int.from_bytes(h[:nb], order)
    z_std = ecdsa.bits2int(h, c.n, order)
    if z_lib != z_std:
        return "hash-trunc-le" if order == "little" and len(h) > nb else "hash-trunc-bits"
    return "hash-ge-n"


# ---------------------------------------------------------------------------
# workload
# ---------------------------------------------------------------------------
def _hash_from_value(v, nb, order):
    ln = max(nb, (v.bit_length() + 7) // 8)
    return v.to_bytes(ln, order)


def gen_tuples(c, order, rng, tier):
    """List of dicts: d (int), dbytes, h (bytes), rnd (bytes), tags."""
    nb = ecdsa.nbytes(c)
    n = c.n
    top = (1 << (8 * nb)) - 1
    dmax = min(n - 1, top)

    def rd():
        return rng.range(1, dmax)

    def rk():
        return rng.range(1, top)

    def rh(ln):
        return rng.bytes(ln)

    def clamp(v):
        return v if v <= top else top
    hv = lambda v: _hash_from_value(v, nb, order)
    ff = b"\xff" * nb
    T = [
        (1, hv(0), 1, "d1,h0,k1"),
        (2, hv(1), clamp(n - 1), "d2,h1,kn-1"),
        (dmax, hv(n - 1), clamp(n), "dn-1,hn-1,kn"),
        (rd(), hv(n), rk(), "hn"),
        (rd(), hv(n + 1), rk(), "hn+1"),
        (rd(), ff, rk(), "hmax"),
        (rd(), rh(nb), rk(), "hrand"),
        (rd(), rh(1), rk(), "hlen1"),
        (rd(), rh(nb - 1), rk(), "hlen-1"),
        (rd(), rh(nb + 1), rk(), "hlen+1"),
        (rd(), rh(2 * nb + 1), rk(), "hlen2+1"),
        (rd(), rh(rng.range(1, 2 * nb + 1)), rk(), "hlenrand"),
        (rd(), b"\xff" * (2 * nb), top, "hlen2max,kmax"),
        (rd(), rh(nb), 0, "k0"),
        (rd(), (b"\x80" + b"\x00" * nb) if order == "big" else (b"\x00" * nb + b"\x80"), rk(), "hlen+1-topbit"),
        # public key exactly G / -G with an ordinary hash and nonce (G+Q or G-Q is then the neutral element)
        (1, rh(nb), rk(), "d1,hrand"),
        (dmax, rh(nb), rk(), "dn-1,hrand"),
    ]
    for i in range(5 if tier == "thorough" else 0):
        T.append((rd(), rh(rng.range(1, 2 * nb + 1)), rk(), "rand%d" % i))
    out = []
    for i, (d, h, k, tag) in enumerate(T):
        short = (i % 3 == 1)     # private key passed with its minimal length now and then
        dl = max(1, (d.bit_length() + 7) // 8) if short else max(nb, (d.bit_length() + 7) // 8)
        rnd = k.to_bytes(nb, order)
        if i % 4 == 2:           # rnd longer than needed: the extra bytes must be ignored
            rnd = rnd + rng.bytes(3)
        out.append({"d": d, "db": d.to_bytes(dl, order), "h": h, "rnd": rnd, "k": k, "tag": tag})
    return out


def pub_encodings(c, Q, order):
    """name -> (qx, qy) for the four layouts"""
    xs, ys = ecdsa.encode(c, Q, "separate", order)
    return {
        "compressed": (ecdsa.encode(c, Q, "compressed", order), None),
        "packed": (ecdsa.encode(c, Q, "packed", order), None),
        "concat": (ecdsa.encode(c, Q, "concat", order), None),
        "separate": (xs, ys),
    }


FORMS = ("compressed", "packed", "concat", "separate")


def _flip(b, bit):
    """flip bit `bit` counted from the most significant bit of the byte string as written"""
    a = bytearray(b)
    a[bit // 8] ^= 0x80 >> (bit % 8)
    return bytes(a)


def wrong_order_point(c, rng):
    if ec.true_cofactor(c) in (1, None):
        return None
    for _ in range(200):
        x = rng.below(c.p)
        ys = ec.lift_x(c, x)
        if ys is None:
            continue
        P = (x, ys[rng.below(2)])
        if ecdsa.mul(c, c.n, P) is not None:
            return P
    return None


def non_residue_x(c, rng):
    for _ in range(200):
        x = rng.below(c.p)
        if ec.lift_x(c, x) is None:
            return x
    return None


def gen_mutations(c, order, t, r, s, rng, tier):
    """Mutated tuples of the valid (h, r, s, Q=dG): list of (kind, op, fields).
    op 'pub': fields = (h, rbytes, sbytes, qx, qy); op 'priv': (h, rbytes, sbytes, dbytes)."""
    nb = ecdsa.nbytes(c)
    n = c.n
    h = t["h"]
    d = t["d"]
    Q = ecdsa.mul_g(c, d)
    encs = pub_encodings(c, Q, order)
    form = FORMS[rng.below(4)]
    qx, qy = encs[form]
    E = lambda v: enc_int(v, nb, order)
    rb, sb = E(r), E(s)
    db = t["db"]
    core = []
    ext = []
    if rb is None or sb is None:
        return [], form

    def pub(kind, hh, rr, ss, kx=qx, ky=qy, tgt=None):
        if rr is None or ss is None:
            return
        (core if tgt is None else tgt).append((kind, "pub", (hh, rr, ss, kx, ky)))

    def priv(kind, hh, rr, ss, dd=db, tgt=None):
        if rr is None or ss is None or dd is None:
            return
        (core if tgt is None else tgt).append((kind, "priv", (hh, rr, ss, dd)))
    # the untouched tuple in every key layout
    pub("valid:" + form, h, rb, sb)
    priv("valid", h, rb, sb)
    for f2 in FORMS:
        if f2 != form:
            pub("valid:" + f2, h, rb, sb, encs[f2][0], encs[f2][1], tgt=ext)
    # hash bit flips: inside and (where it exists) beyond the standard truncation
    hbits = 8 * len(h)
    used = min(hbits, n.bit_length()) if c.algo == ecdsa.ALGO_ECDSA else hbits

    def hpos(i):     # i-th most significant bit of the hash integer -> position in the string
        if order == "big":
            return i
        byte = len(h) - 1 - i // 8
        return byte * 8 + (i % 8)
    pub("hash-flip-in", _flip(h, hpos(rng.below(used))), rb, sb)
    priv("hash-flip-in", _flip(h, hpos(rng.below(used))), rb, sb, tgt=ext)
    pub("hash-flip-in-last", _flip(h, hpos(used - 1)), rb, sb, tgt=ext)
    if used < hbits:
        pub("hash-flip-beyond-first", _flip(h, hpos(used)), rb, sb)
        pub("hash-flip-beyond", _flip(h, hpos(rng.range(used, hbits - 1))), rb, sb, tgt=ext)
        priv("hash-flip-beyond", _flip(h, hpos(rng.range(used, hbits - 1))), rb, sb, tgt=ext)
    if len(h) > 1:
        pub("hash-cut", h[:-1] if order == "big" else h[1:], rb, sb, tgt=ext)
    pub("hash-extend", (h + b"\x00") if order == "big" else (b"\x00" + h), rb, sb, tgt=ext)
    pub("hash-zero-prefix", (b"\x00" + h) if order == "big" else (h + b"\x00"), rb, sb, tgt=ext)
    # r / s bit flips and boundary values
    pub("r-flip", h, _flip(rb, rng.below(8 * nb)), sb)
    pub("s-flip", h, rb, _flip(sb, rng.below(8 * nb)))
    priv("r-flip", h, _flip(rb, rng.below(8 * nb)), sb, tgt=ext)
    priv("s-flip", h, rb, _flip(sb, rng.below(8 * nb)), tgt=ext)
    top = (1 << (8 * nb)) - 1
    for nm, v in (("0", 0), ("n", n), ("n+1", n + 1), ("max", top), ("n-1", n - 1), ("1", 1)):
        strong = nm in ("0", "n")
        pub("r=" + nm, h, E(v), sb, tgt=None if strong else ext)
        pub("s=" + nm, h, rb, E(v), tgt=None if strong else ext)
        priv("r=" + nm, h, E(v), sb, tgt=None if nm == "0" else ext)
        priv("s=" + nm, h, rb, E(v), tgt=None if nm == "0" else ext)
    pub("r+n", h, E(r + n), sb)      # encodable only where 2n < 2^(8*bytes): cofactor curves, 255-bit n
    pub("s+n", h, rb, E(s + n))
    priv("r+n", h, E(r + n), sb, tgt=ext)
    pub("s=n-s", h, rb, E(n - s))
    priv("s=n-s", h, rb, E(n - s))
    pub("r=n-r", h, E(n - r), sb, tgt=ext)
    pub("swap-rs", h, sb, rb)
    priv("swap-rs", h, sb, rb, tgt=ext)
    pub("r0-s1", h, E(0), E(1))
    priv("r0-s1", h, E(0), E(1))
    # wrong keys
    d2 = d + 1 if d + 1 < n else d - 1
    if d2 >= 1:
        Q2 = ecdsa.mul_g(c, d2)
        e2 = pub_encodings(c, Q2, order)[form]
        pub("key-other", h, rb, sb, e2[0], e2[1])
        priv("key-other", h, rb, sb, enc_int(d2, max(nb, len(db)), order), tgt=ext)
    nQ = ec.neg(c, Q)
    e3 = pub_encodings(c, nQ, order)[form]
    pub("key-neg", h, rb, sb, e3[0], e3[1])
    priv("key-neg", h, rb, sb, enc_int(n - d, nb, order), tgt=ext)
    pub("key-O", h, rb, sb, b"\x00", None)
    priv("key-0", h, rb, sb, b"\x00" * nb)
    priv("key-n", h, rb, sb, enc_int(n, nb, order), tgt=ext)
    priv("key-max", h, rb, sb, b"\xff" * nb, tgt=ext)
    # forged for the neutral element: any (r, s) with r = x(u1*G) passes the bare equation
    e_std = ecdsa.hash_to_e(c, h, order)
    s_f = rng.range(1, min(n - 1, top))
    if c.algo == ecdsa.ALGO_GOST:
        u1 = s_f * pow(e_std, -1, n) % n
    else:
        u1 = e_std * pow(s_f, -1, n) % n
    Rf = ecdsa.mul_g(c, u1) if u1 else None
    if Rf is not None and Rf[0] % n and E(Rf[0] % n) is not None:
        pub("key-O-forged", h, E(Rf[0] % n), E(s_f), b"\x00", None)
        priv("key-0-forged", h, E(Rf[0] % n), E(s_f), b"\x00" * nb)
    # invalid points in the uncompressed layouts
    x, y = Q
    uform = "packed" if form in ("packed", "compressed") else form

    def raw(px, py):
        xb, yb = enc_int(px, nb, order), enc_int(py, nb, order)
        if xb is None or yb is None:
            return None
        if uform == "packed":
            return (b"\x04" + xb + yb, None)
        if uform == "concat":
            return (xb + yb, None)
        return (xb, yb)
    for nm, (px, py), tgt in (("key-offcurve", (x, (y + 1) % c.p), None), ("key-x>=p", (x + c.p, y), ext),
                              ("key-y>=p", (x, y + c.p), ext), ("key-xy-max", (top, top), ext),
                              ("key-x=p", (c.p, y), ext)):
        k = raw(px, py)
        if k is not None:
            pub(nm, h, rb, sb, k[0], k[1], tgt=tgt)
            if nm != "key-offcurve":
                continue
            pub(nm + "-r0s1", h, E(0), E(1), k[0], k[1], tgt=ext)
    k = raw(top, top)
    if k is not None:
        pub("key-xy-max-r0s1", h, E(0), E(1), k[0], k[1], tgt=ext)
    wp = wrong_order_point(c, rng)
    if wp is not None:
        k = raw(wp[0], wp[1])
        pub("key-wrong-order", h, rb, sb, k[0], k[1])
    xnr = non_residue_x(c, rng)
    if xnr is not None:
        pub("key-compressed-noroot", h, rb, sb, bytes([2 + rng.below(2)]) + enc_int(xnr, nb, order), None, tgt=ext)
    pub("key-compressed-otherparity", h, rb, sb, bytes([encs["compressed"][0][0] ^ 1]) + encs["compressed"][0][1:], None, tgt=ext)
    pub("key-bad-prefix", h, rb, sb, bytes([rng.choice([0, 1, 5, 8, 255])]) + encs["packed"][0][1:], None, tgt=ext)
    pub("key-short", h, rb, sb, encs["packed"][0][:-1], None, tgt=ext)
    pick = list(ext)
    rng.shuffle(pick)
    return core + pick[:(8 if tier == "thorough" else 4)], form


# ---------------------------------------------------------------------------
# reference verdicts (cached per worker)
# ---------------------------------------------------------------------------
class Ref:
    def __init__(self, c, order):
        self.c = c
        self.order = order
        self.cache = {}
        self.pts = {}

    def point(self, qx, qy):
        k = (qx, qy)
        if k not in self.pts:
            try:
                P = ecdsa.decode(self.c, qx, qy, self.order)
                self.pts[k] = P if P is not None else "O"
            except ecdsa.Invalid:
                self.pts[k] = None
        return self.pts[k]

    def _verdict(self, e, r, s, Q):
        k = (e, r, s, Q)
        v = self.cache.get(k)
        if v is None:
            v = ecdsa.verify_e(self.c, e, r, s, Q)
            self.cache[k] = v
        return v

    def pub(self, h, rb, sb, qx, qy, e=None):
        Q = self.point(qx, qy)
        if Q is None or Q == "O":
            return False
        if e is None:
            e = ecdsa.hash_to_e(self.c, h, self.order)
        return self._verdict(e, int.from_bytes(rb, self.order), int.from_bytes(sb, self.order), Q)

    def priv(self, h, rb, sb, db, e=None):
        d = int.from_bytes(db, self.order)
        if not (1 <= d < self.c.n):
            return False
        if e is None:
            e = ecdsa.hash_to_e(self.c, h, self.order)
        return self._verdict(e, int.from_bytes(rb, self.order), int.from_bytes(sb, self.order), ecdsa.mul_g(self.c, d))


# ---------------------------------------------------------------------------
# running cases with crash re-judging
# ---------------------------------------------------------------------------
def run_judged(exe, vmeta, cases, part, entry_of):
    """run_cases on the sanitizer build; a sanitizer abort is recorded as an observation and the
    case is re-executed on the plain build, whose observation is judged instead."""
    res = common.run_cases(exe, cases)
    out = []
    for i, o in enumerate(res):
        if isinstance(o, common.Crash):
            key = common.crash_key(o, entry_of(i))
            part["observations"][key] = part["observations"].get(key, 0) + 1
            if o.kind == "hang":
                out.append(o)
                continue
            try:
                pexe = plain_exe(vmeta)
                o2 = common.run_cases(pexe, [cases[i]])[0]
            except common.BuildError:
                o2 = o
            if isinstance(o2, common.Crash):
                o2.report = (o.report or "")[-3000:] + "\n--- plain build ---\n" + (o2.report or "")[-1500:]
            out.append(o2)
        else:
            out.append(o)
    return out


def _viol(part, key, vname, vmeta, case, expect, observed, note, extra=None):
    w = {"variant": vname, "flags": vmeta["flags"], "cc": vmeta["cc"], "san": "asu", "case": case.hex(),
         "expect": expect, "observed": observed, "note": note, "seed": common.seed()}
    if extra:
        w.update(extra)
    part["violations"].append((key, w))


ENTRY = {OP_SIGN: "ecdsa_sign", OP_VERIFY: "ecdsa_verify", OP_VERIFY_PRIV: "ecdsa_verify_priv_key"}


def _entry(op, oname):
    return "%s_%s" % (ENTRY[op], oname)


def kind_class(kind):
    return kind.split(":")[0]


# ---------------------------------------------------------------------------
# worker: one curve, one byte order, a group of variants
# ---------------------------------------------------------------------------
def nochk_unvalidated_key(c, order, op, f):
    """With EC_DISABLE_PUB_KEY_CHK the caller opted out of key validation, so the byte-level verifier
    promises nothing about a finite (x, y) that is not a valid point (off curve, coordinates >= p,
    wrong order): the bare equation is evaluated on it and may hold (e.g. u1 = 0, u2 = 1 gives
    R = Q whatever y is).  True for exactly those keys; O and undecodable strings stay gated."""
    if op != "pub":
        return False
    try:
        P = ecdsa.decode(c, f[3], f[4], order, validate=False)
    except ecdsa.Invalid:
        return False
    r, s = int.from_bytes(f[1], order), int.from_bytes(f[2], order)
    if not (1 <= r < c.n and 1 <= s < c.n):
        return False        # out-of-range r, s must be rejected whatever the key is
    return P is not None and not ecdsa.valid_point(c, P)


def work_curve(job):
    ci, tier, exes, meta = job["ci"], job["tier"], job["exes"], job["meta"]
    oname, order, le = ORDERS[job["oi"]]
    part = common.new_part()
    c = ec.curve_list()[ci]
    nb = ecdsa.nbytes(c)
    rng = Rng("C03", common.seed(), ci, oname)
    ref = Ref(c, order)
    tuples = gen_tuples(c, order, rng, tier)
    pats = [rng.below(256) for _ in tuples]
    sign_cases = [case_sign(ci, le, t["h"], t["db"], t["rnd"], nb=nb, pat=p) for t, p in zip(tuples, pats)]
    # reference signatures
    for t in tuples:
        t["cause"] = hash_cause(c, t["h"], order)
        t["k_eff"] = ecdsa.reduce_rnd(c, int.from_bytes(t["rnd"][:nb], order))
        t["e_std"] = ecdsa.hash_to_e(c, t["h"], order)
        t["encodable"] = len(t["db"]) <= nb
        try:
            if not t["encodable"]:
                raise ecdsa.Invalid("private key wider than the byte API")
            t["ref"] = ecdsa.sign_e(c, t["e_std"], t["d"], t["k_eff"])
        except ecdsa.Invalid:
            t["ref"] = None
        t["muts"] = None
    for vname, exe in exes.items():
        vm = meta[vname]
        vrng = Rng("C03v", common.seed(), ci, oname, vname)
        # cost grows with bits^3: slow variants get a rotating third of the
        # tuples, curves of 384 bits and more half of that again; over the 32 curves every tuple kind
        # meets every variant
        div = 3 if vm.get("slow") else 1
        if c.bits >= 384:
            div *= 2
        sel = [i for i in range(len(tuples)) if (i + ci) % div == vm["idx"] % div]
        my_tuples = [tuples[i] for i in sel]
        my_cases = [sign_cases[i] for i in sel]
        obs = run_judged(exe, vm, my_cases, part, lambda i: _entry(OP_SIGN, oname))
        v_cases = []
        v_info = []
        for t, o, sc in zip(my_tuples, obs, my_cases):
            part["evaluations"] += 1
            ent = _entry(OP_SIGN, oname)
            hcls = ("lt" if len(t["h"]) < nb else "eq" if len(t["h"]) == nb else "gt", t["cause"] or "std")
            if isinstance(o, common.Crash):
                _viol(part, "%s:%s:no-verdict" % (o.kind, ent), vname, vm, sc, "signature or error", repr(o),
                      "driver died in both sanitizer and plain build", {"report": o.report[-3000:]})
                continue
            ob = Obs(o)
            if ob.rc == RC_SETUP:
                part["inconclusive"].append("driver setup failed (curve %s does not load in variant %s)" % (c.name, vname))
                break
            lib = None
            if ob.rc == 0:
                ob.r.u32()
                lib = (int.from_bytes(ob.r.blob(), order), int.from_bytes(ob.r.blob(), order))
            part["classes"].add(("sign", c.algo, oname, t["tag"].rstrip("0123456789"), hcls, ob.rc == 0, t["ref"] is not None))
            if t["ref"] is None:
                if ob.rc == 0:
                    _viol(part, "oracle:%s:signs-with-invalid-input:%s" % (ent, "k0" if t["k_eff"] == 0 else "key-range"),
                          vname, vm, sc, "error", {"rc": 0, "r": hex(lib[0]), "s": hex(lib[1])},
                          "signing must fail: effective nonce %d, key encodable=%s" % (t["k_eff"], t["encodable"]))
                common.part_count(part, "sign_expected_failures")
                continue
            if ob.rc != 0:
                # the statement quantifies over signings that succeed; a refusal of valid input is
                # shown in the evidence but does not decide C03 (C09 judges the export paths)
                k = "oracle-note:%s:refuses-valid-input:rc%d" % (ent, ob.rc)
                part["observations"][k] = part["observations"].get(k, 0) + 1
                common.part_count(part, "sign_refused_valid_input")
            elif lib != t["ref"]:
                cause = "unexplained"
                if t["cause"]:
                    try:
                        if ecdsa.sign_e(c, lib_model_e(c, t["h"], order), t["d"], t["k_eff"]) == lib:
                            cause = t["cause"]
                    except ecdsa.Invalid:
                        pass
                key = ("oracle:%s:nonstandard-hash:%s" % (ent, cause)) if cause != "unexplained" else \
                    ("oracle:%s:signature-differs-from-standard" % ent)
                _viol(part, key, vname, vm, sc,
                      {"r": hex(t["ref"][0]), "s": hex(t["ref"][1])}, {"r": hex(lib[0]), "s": hex(lib[1])},
                      "curve %s hash %s (len %d) d=%x k'=%x: deterministic signature must equal the reference" % (
                          c.name, t["h"].hex(), len(t["h"]), t["d"], t["k_eff"]))
                common.part_count(part, "sign_mismatch")
            else:
                common.part_count(part, "sign_equal_reference")
                if not any(x.get("op") == "sign" for x in part["samples"]):
                    part["samples"].append({"op": "sign", "curve": c.name, "entry": ent, "variant": vname, "tuple": t["tag"],
                                            "hash": t["h"].hex(), "priv_key": t["db"].hex(), "rnd": t["rnd"].hex(),
                                            "effective_nonce": hex(t["k_eff"]), "library_r": hex(lib[0]),
                                            "library_s": hex(lib[1]), "equals_reference": True})
            # ---- verification phase ----
            if t["muts"] is None:
                mrng = Rng("C03m", common.seed(), ci, oname, t["tag"])
                t["muts"], t["form"] = gen_mutations(c, order, t, t["ref"][0], t["ref"][1], mrng, tier)
            for kind, op, f in t["muts"]:
                v_info.append((t, kind, op, f, "ref"))
            if lib is not None and lib != t["ref"]:
                rb, sb = enc_int(lib[0], nb, order), enc_int(lib[1], nb, order)
                if rb is not None and sb is not None:
                    Q = ecdsa.mul_g(c, t["d"])
                    qx, qy = pub_encodings(c, Q, order)[t["form"]]
                    v_info.append((t, "libsig", "pub", (t["h"], rb, sb, qx, qy), "lib"))
                    v_info.append((t, "libsig", "priv", (t["h"], rb, sb, t["db"]), "lib"))
        for (t, kind, op, f, src) in v_info:
            if op == "pub":
                v_cases.append(case_verify(ci, le, f[0], f[1], f[2], f[3], f[4], pat=pats[0]))
            else:
                v_cases.append(case_verify_priv(ci, le, f[0], f[1], f[2], f[3], pat=pats[0]))
        vobs = run_judged(exe, vm, v_cases, part,
                          lambda i: _entry(OP_VERIFY if v_info[i][2] == "pub" else OP_VERIFY_PRIV, oname))
        for (t, kind, op, f, src), o, vc in zip(v_info, vobs, v_cases):
            part["evaluations"] += 1
            ent = _entry(OP_VERIFY if op == "pub" else OP_VERIFY_PRIV, oname)
            if isinstance(o, common.Crash):
                _viol(part, "%s:%s:no-verdict" % (o.kind, ent), vname, vm, vc, "accept or reject", repr(o),
                      "driver died in both sanitizer and plain build (%s)" % kind, {"report": o.report[-3000:]})
                continue
            ob = Obs(o)
            if ob.rc == RC_SETUP:
                part["inconclusive"].append("driver setup failed for %s %s" % (c.name, kind))
                continue
            acc = ob.rc == 0
            want = ref.pub(*f) if op == "pub" else ref.priv(*f)
            hc = hash_cause(c, f[0], order)
            part["classes"].add(("verify", op, c.algo, oname, kind_class(kind), want, acc, hc or "std"))
            common.part_count(part, "verify_" + ("accept" if want else "reject") + "_expected")
            if acc == want:
                if kind not in ("valid:" + t["form"], "valid") and sum(1 for x in part["samples"] if x.get("op") == "verify") < 2 \
                        and (want or not any(x.get("op") == "verify" and not x["reference_accepts"] for x in part["samples"])):
                    part["samples"].append({"op": "verify", "curve": c.name, "entry": ent, "variant": vname, "mutation": kind,
                                            "hash": f[0].hex(), "r": f[1].hex(), "s": f[2].hex(),
                                            "key": f[3].hex() + ("|" + f[4].hex() if op == "pub" and f[4] else ""),
                                            "reference_accepts": want, "library_rc": ob.rc})
                continue
            e_lib = lib_model_e(c, f[0], order)
            if (not acc) and ob.rc == 75 and c.algo == ecdsa.ALGO_GOST and len(f[0]) > 2 * nb:
                # GOST alpha is the whole hash; the byte API works in "double size + 1 digit" objects
                # (EC_CURVE_CALC_BITS_DBL), so a string longer than 2*bytes need not fit: with 8-bit digits
                # 2*bytes+2 bytes are refused by the import with EOVERFLOW.  A loud refusal of an input
                # wider than the documented working size is not a wrong verdict.
                common.part_count(part, "gost_hash_wider_than_working_size_refused")
                continue
            if acc and not vm["chk"] and nochk_unvalidated_key(c, order, op, f):
                common.part_count(part, "nochk_unvalidated_key_accepted_not_gated")
                continue
            # label by cause: does the known non-standard hash handling explain the verdict?
            what = "accepts-invalid" if acc else "rejects-valid"
            ri, si = int.from_bytes(f[1], order), int.from_bytes(f[2], order)
            det = kind_class(kind)
            if acc:     # name the accepted tuple by what makes it invalid, not by the mutation that built it
                if ri == 0 or si == 0:
                    det = "r-or-s-zero"
                elif ri >= c.n or si >= c.n:
                    det = "r-or-s-above-range"
                elif (op == "pub" and ref.point(f[3], f[4]) == "O") or (op == "priv" and int.from_bytes(f[3], order) == 0):
                    det = "neutral-key"
            key = "oracle:%s:%s:%s" % (ent, what, det)
            if hc is not None:
                model = ref.pub(*f, e=e_lib) if op == "pub" else ref.priv(*f, e=e_lib)
                if model == acc:
                    key = "oracle:%s:nonstandard-hash:%s" % (ent, hc)
            _viol(part, key, vname, vm, vc,
                  {"accept": want}, {"accept": acc, "rc": ob.rc},
                  "curve %s %s mutation %s (signature from %s): hash=%s r=%s s=%s key=%s" % (
                      c.name, oname, kind, src, f[0].hex(), f[1].hex(), f[2].hex(),
                      (f[3].hex() + ("|" + f[4].hex() if op == "pub" and f[4] else ""))))
        # ---- failure honesty ----
        if oname == "be":
            honesty_natural(part, c, ci, vname, vm, exe, vrng)
            bn_sign_sequences(part, c, ci, vname, vm, exe, vrng)
        if job["fault_variant"].get(oname) == vname:
            honesty_faults(part, c, ci, oname, order, le, vname, vm, exe, vrng, tier)
    return part


def _valid_small_tuple(c, order, rng):
    """A valid tuple whose hash is in the region where library and standard agree."""
    nb = ecdsa.nbytes(c)
    top = (1 << (8 * nb)) - 1
    d = rng.range(1, min(c.n - 1, top))
    k = rng.range(1, min(c.n - 1, top))
    # a hash string short enough that neither truncation nor reduction applies: 8*len < bitlen(n)
    h = rng.bytes(min(nb, (c.n.bit_length() - 1) // 8))
    assert hash_cause(c, h, order) is None
    e = ecdsa.hash_to_e(c, h, order)
    r, s = ecdsa.sign_e(c, e, d, k)
    return d, h, e, r, s, ecdsa.mul_g(c, d)


def honesty_natural(part, c, ci, vname, vm, exe, rng):
    """(a) bn-level verifiers on objects a byte-level caller can never build.  Expected verdicts:
    any tuple with r or s outside [1, n-1] must be rejected whatever the key object holds; a valid
    (r, s) must be accepted with the right key in a normally sized object and rejected with an
    off-curve / neutral / zero key.  Unreduced aliases of the right key (coordinates + p, or the
    right point in an over-wide object) get no expected verdict: the bn-level call documents no
    validation."""
    d, h, e, r, s, Q = _valid_small_tuple(c, "big", rng)
    n = c.n
    m = c.bits
    W600 = 1 << 600
    cases = []
    info = []

    def add(kind, want, e_, r_, s_, qx, qy, inf=0, which=0, qbits=0, nbits=0):
        cases.append(case_verify_bn(ci, e_, r_, s_, qx, qy, inf, which, nbits, qbits, pat=rng.below(256)))
        info.append((kind, want, which, r_, s_))
    add("valid", True, e, r, s, Q[0], Q[1])
    add("valid-priv", True, e, r, s, d, 0, which=1)
    for rr, ss, nm in ((0, 1, "r0s1"), (0, s, "r0"), (r, s, "rs"), (r, 0, "s0"), (0, 0, "r0s0")):
        ok = nm == "rs"
        bad = None if ok else False
        add("overwide-x-2^600:" + nm, bad, e, rr, ss, W600, 1, qbits=1024)
        add("overwide-y-2^600:" + nm, bad, e, rr, ss, Q[0], W600, qbits=1024)
        add("overwide-x-2^(m+70):" + nm, bad, e, rr, ss, 1 << (m + 70), Q[1], qbits=m + 192)
        add("wide-object-valid-point:" + nm, bad, e, rr, ss, Q[0], Q[1], qbits=1024)
        add("coords+p:" + nm, bad, e, rr, ss, Q[0] + c.p, Q[1] + c.p, qbits=m + 64)
        add("offcurve:" + nm, False, e, rr, ss, Q[0], (Q[1] + 1) % c.p, 0)
        add("infinity-flag:" + nm, False, e, rr, ss, Q[0], Q[1], inf=1)
        add("zero-point:" + nm, False, e, rr, ss, 0, 0)
        add("priv:" + nm, ok, e, rr, ss, d, 0, which=1)
        add("priv-d0:" + nm, False, e, rr, ss, 0, 0, which=1)
        add("priv-d>=n:" + nm, False, e, rr, ss, n + d, 0, which=1)
    add("r=n", False, e, n, s, Q[0], Q[1])
    add("s=n", False, e, r, n, Q[0], Q[1])
    obs = run_judged(exe, vm, cases, part, lambda i: "ecdsa_verify" if info[i][2] == 0 else "ecdsa_verify_priv_key")
    for (kind, want, which, r_, s_), o, cs in zip(info, obs, cases):
        ent = "ecdsa_verify" if which == 0 else "ecdsa_verify_priv_key"
        part["evaluations"] += 1
        if isinstance(o, common.Crash):
            _viol(part, "%s:%s:no-verdict" % (o.kind, ent), vname, vm, cs, "accept or reject", repr(o),
                  "bn-level %s" % kind, {"report": o.report[-3000:]})
            continue
        ob = Obs(o)
        if ob.rc == RC_SETUP:
            common.part_count(part, "bn_level_setup_skipped")
            continue
        acc = ob.rc == 0
        part["classes"].add(("bn-level", ent, kind.split(":")[0], kind.split(":")[-1], acc))
        common.part_count(part, "bn_level_cases")
        if want is None:
            continue
        if acc and not want:
            rcls = "r-or-s-zero" if (r_ == 0 or s_ == 0) else "r-or-s-above-range" if (r_ >= n or s_ >= n) else kind.split(":")[0]
            _viol(part, "oracle:%s:accepts-invalid:%s" % (ent, rcls), vname, vm, cs, {"accept": False},
                  {"accept": True, "rc": 0}, "curve %s: bn-level verifier accepted e=%x r=%x s=%x with key object '%s'" % (
                      c.name, e, r_, s_, kind))
        elif want and not acc:
            _viol(part, "oracle:%s:rejects-valid:bn-level" % ent, vname, vm, cs, {"accept": True},
                  {"accept": False, "rc": ob.rc}, "curve %s: bn-level verifier rejected a valid tuple" % c.name)


def bn_sign_sequences(part, c, ci, vname, vm, exe, rng):
    """bn-level ecdsa_sign() the way a caller with its own objects uses it: sign_s / sign_r separate from or
    aliased to rnd / hash ("sign_r - can point to hash", "sign_s - can point to rnd"), output objects fresh,
    preloaded, or still holding the previous signature (two-step sequences).  Each successful step must
    equal the reference signature and pass ecdsa_verify() and ecdsa_verify_priv_key().  Whether the caller's
    rnd object is left untouched is not promised by the header and only counted."""
    n = c.n
    top = (1 << c.bits) - 1
    d = rng.range(1, n - 1)
    Q = ecdsa.mul_g(c, d)

    def step(kind):
        e = {"small": rng.below(n), "ge-n": n + rng.below(1 << 16), "zero": 0}[kind]
        return (e, rng.range(1, n - 1))
    prev = ecdsa.sign_e(c, rng.range(1, n - 1), d, rng.range(1, n - 1))
    plans = [
        ("alias-both", 3, None, [step("small"), step("small")]),
        ("separate-fresh", 0, None, [step("small")]),
        ("separate-reuse", 0, None, [step("small"), step("ge-n"), step("small")]),
        ("separate-preloaded", 0, prev, [step("small")]),
        ("s-alias-rnd", 1, prev, [step("small"), step("zero")]),
        ("r-alias-hash", 2, None, [step("small"), step("small")]),
        ("separate-rnd>=n", 0, (1, 1), [(rng.below(n), n + rng.below(min(n, top - n) or 1))]),
    ]
    cases = [case_sign_bn(ci, d, Q, al, steps, pre, pat=rng.below(256)) for (_, al, pre, steps) in plans]
    res = run_judged(exe, vm, cases, part, lambda i: "ecdsa_sign")
    for (name, al, pre, steps), o, cs in zip(plans, res, cases):
        if isinstance(o, common.Crash):
            _viol(part, "%s:ecdsa_sign:no-verdict" % o.kind, vname, vm, cs, "signature or error", repr(o),
                  "bn-level sequence %s" % name, {"report": o.report[-3000:]})
            continue
        ob = Obs(o)
        if ob.rc == RC_SETUP:
            common.part_count(part, "bn_sign_setup_skipped")
            continue
        ns = ob.r.u8()
        for i in range(ns):
            e, k = steps[i]
            rc = ob.r.i32()
            r_, s_, k_after, _e_after = (int.from_bytes(ob.r.blob(), "big") for _ in range(4))
            v1, v2 = ob.r.i32(), ob.r.i32()
            part["evaluations"] += 1
            common.part_count(part, "bn_sign_steps")
            er = e % n
            if c.algo == ecdsa.ALGO_GOST and er == 0:
                er = 1
            try:
                want = ecdsa.sign_e(c, er, d, ecdsa.reduce_rnd(c, k))
            except ecdsa.Invalid:
                want = None
            part["classes"].add(("bn-sign", c.algo, name, i, e >= n, k >= n, rc == 0))
            if not (al & 1) and k_after != k:
                common.part_count(part, "bn_sign_rnd_object_modified")
            note = "curve %s bn-level ecdsa_sign sequence '%s' step %d/%d: e=%x d=%x rnd=%x" % (c.name, name, i + 1, ns, e, d, k)
            if want is None:
                if rc == 0:
                    _viol(part, "oracle:ecdsa_sign:signs-with-invalid-input", vname, vm, cs, "error", {"rc": 0}, note)
                continue
            if rc != 0:
                _viol(part, "oracle:ecdsa_sign:fails-on-valid-input:%s" % name, vname, vm, cs,
                      {"r": hex(want[0]), "s": hex(want[1])}, {"rc": rc}, note)
                continue
            if (r_, s_) != want:
                _viol(part, "oracle:ecdsa_sign:signature-differs-from-standard:%s" % name, vname, vm, cs,
                      {"r": hex(want[0]), "s": hex(want[1])}, {"rc": 0, "r": hex(r_), "s": hex(s_), "verify": v1, "verify_priv_key": v2}, note)
            elif v1 != 0 or v2 != 0:
                _viol(part, "oracle:ecdsa_sign:own-signature-rejected:%s" % name, vname, vm, cs, {"verify": 0, "verify_priv_key": 0},
                      {"verify": v1, "verify_priv_key": v2}, note)
            else:
                common.part_count(part, "bn_sign_ok")


def _positions(N, count, rng, everything=False):
    if N <= 0:
        return []
    if everything or N <= count:
        return list(range(1, N + 1))
    step = N / float(count)
    out = set()
    for i in range(count):
        lo = int(i * step) + 1
        hi = max(lo, int((i + 1) * step))
        out.add(rng.range(lo, hi))
    out.add(1)
    out.add(N)
    return sorted(out)


def honesty_faults(part, c, ci, oname, order, le, vname, vm, exe, rng, tier):
    """(b) failpoint enumeration: k-th BN_RET_ON_ERR status inside one call becomes EOVERFLOW."""
    nb = ecdsa.nbytes(c)
    d, h, e, r, s, Q = _valid_small_tuple(c, order, rng)
    E = lambda v: enc_int(v, nb, order)
    db = E(d)
    k = rng.range(1, min(c.n - 1, (1 << (8 * nb)) - 1))
    ref_sig = ecdsa.sign_e(c, e, d, k)
    encs = pub_encodings(c, Q, order)
    pk = encs["packed"]
    ck = encs["compressed"]
    quick = tier == "quick"
    small = c.name == "secp112r1"       # thorough: every position of every plan on this curve
    # (name, entry, builder(arm) -> case, tuple class, positions wanted)
    plans = [
        ("verify-valid", _entry(OP_VERIFY, oname), lambda a: case_verify(ci, le, h, E(r), E(s), pk[0], pk[1], arm=a), "valid", 16 if quick else 60),
        ("verify-r0s1", _entry(OP_VERIFY, oname), lambda a: case_verify(ci, le, h, E(0), E(1), pk[0], pk[1], arm=a), "r-zero", 16 if quick else 60),
        ("verify-r0-compressed", _entry(OP_VERIFY, oname), lambda a: case_verify(ci, le, h, E(0), E(s), ck[0], ck[1], arm=a), "r-zero", 8 if quick else 40),
        ("verify-priv-valid", _entry(OP_VERIFY_PRIV, oname), lambda a: case_verify_priv(ci, le, h, E(r), E(s), db, arm=a), "valid", 12 if quick else 60),
        ("verify-priv-r0s1", _entry(OP_VERIFY_PRIV, oname), lambda a: case_verify_priv(ci, le, h, E(0), E(1), db, arm=a), "r-zero", 12 if quick else 60),
        ("sign", _entry(OP_SIGN, oname), lambda a: case_sign(ci, le, h, db, E(k), nb=nb, arm=a), "sign", 14 if quick else 80),
    ]
    if oname == "be":
        plans += [
            ("bn-verify-valid", "ecdsa_verify", lambda a: case_verify_bn(ci, e, r, s, Q[0], Q[1], arm=a), "valid", 14 if quick else 100),
            ("bn-verify-r0s1", "ecdsa_verify", lambda a: case_verify_bn(ci, e, 0, 1, Q[0], Q[1], arm=a), "r-zero", 20 if quick else 100),
            ("bn-verify-s-out-of-range", "ecdsa_verify", lambda a: case_verify_bn(ci, e, 0, c.n, Q[0], Q[1], arm=a), "s-range", 4),
            ("bn-verify-priv-r0s1", "ecdsa_verify_priv_key", lambda a: case_verify_bn(ci, e, 0, 1, d, 0, which=1, arm=a), "r-zero", 14 if quick else 100),
        ]
    cleans = run_judged(exe, vm, [pl[2](0) for pl in plans], part, lambda i: plans[i][1])
    cases = []
    cinfo = []
    for (name, ent, mk, tcls, want), clean in zip(plans, cleans):
        if isinstance(clean, common.Crash):
            continue
        N = Obs(clean).calls
        # exhaustive enumeration only where one call has at most 45000 checked statuses (bn-level
        # verifiers and the signer on secp112r1); the byte-level verifiers spend ~10^5 more inside the
        # public-key validation and stay stride-sampled
        everything = (not quick) and small and N <= 45000
        common.part_count(part, "fault_positions_total", N)
        for p in _positions(N, want, rng, everything):
            cases.append(mk(p))
            cinfo.append((name, ent, tcls, p, N))
    obs = run_judged(exe, vm, cases, part, lambda i: cinfo[i][1])
    for (name, ent, tcls, p, N), o, cs in zip(cinfo, obs, cases):
        part["evaluations"] += 1
        if isinstance(o, common.Crash):
            _viol(part, "%s:%s:no-verdict-under-fault" % (o.kind, ent), vname, vm, cs, "error return", repr(o),
                  "failpoint %d/%d in %s" % (p, N, name), {"report": o.report[-3000:]})
            continue
        ob = Obs(o)
        if not ob.fired:
            common.part_count(part, "fault_positions_not_reached")
            continue
        common.part_count(part, "fault_positions_hit")
        part["classes"].add(("fault", ent, tcls, ob.func, ob.rc == 0))
        if not any(x.get("op") == "failpoint" for x in part["samples"]):
            part["samples"].append({"op": "failpoint", "curve": c.name, "entry": ent, "variant": vname, "plan": name,
                                    "position": p, "of": N, "fired_in": ob.func, "library_rc": ob.rc, "case": cs.hex()})
        if ob.rc != 0:
            continue
        if tcls == "sign":
            ob.r.u32()
            lib = (int.from_bytes(ob.r.blob(), order), int.from_bytes(ob.r.blob(), order))
            if lib == ref_sig:
                k2 = "fault-note:%s:success-with-correct-signature-after-failure" % ent
                part["observations"][k2] = part["observations"].get(k2, 0) + 1
                continue
            _viol(part, "fault:%s:wrong-signature-after-internal-failure" % ent, vname, vm, cs,
                  {"rc": "non-zero, or 0 with the reference signature", "r": hex(ref_sig[0]), "s": hex(ref_sig[1])},
                  {"rc": 0, "r": hex(lib[0]), "s": hex(lib[1])},
                  "curve %s: status %d/%d forced to EOVERFLOW in %s(); signer returned 0 with a wrong signature" % (
                      c.name, p, N, ob.func), {"fault_k": p, "fault_func": ob.func})
        else:
            _viol(part, "fault:%s:success-after-internal-failure" % ent, vname, vm, cs,
                  {"rc": "non-zero"}, {"rc": 0},
                  "curve %s plan %s: status %d/%d forced to EOVERFLOW in %s(); verifier still returned 0" % (
                      c.name, name, p, N, ob.func), {"fault_k": p, "fault_func": ob.func})


# ---------------------------------------------------------------------------
# entry points
# ---------------------------------------------------------------------------
def run(tier):
    report = common.Report(PROP, tier, "exploration")
    report.rule = (
        "per curve (thorough: all 32; quick: a seeded rotating subset of 10 that always holds secp521r1, a cofactor-4, "
        "a Brainpool, a 161/225-bit-order and three GOST curves) x byte order (2) x build variant: 15 (+5 random, "
        "thorough) sign tuples mixing private keys "
        "{1,2,n-1,random}, hash values {0,1,n-1,n,n+1,2^(8*bytes)-1,random} and lengths {1,bytes-1,bytes,bytes+1,"
        "2*bytes,2*bytes+1,random}, nonces {0,1,n-1,n,max,random}; per signed tuple ~27 (thorough ~31) mutated "
        "verification tuples (bit flips of hash inside/beyond the truncation, of r and s, boundary r/s, n-s, swap, "
        "10 kinds of wrong/invalid public key in 4 layouts, forged signature for O) through the public-key and "
        "the private-key verifier; bn-level verifiers on over-wide/invalid objects; bn-level ecdsa_sign sequences with "
        "sign_s/sign_r separate from or aliased to rnd/hash and output objects fresh, preloaded or reused across "
        "steps; failpoint enumeration. "
        "A class = (operation, algorithm, byte order, tuple or mutation kind, hash class vs n and field size, "
        "expected verdict, observed verdict) resp. (failpoint, entry, tuple class, function where it fired, outcome); "
        "a class is non-trivial because each names a distinct input region or internal failure site.")
    report.assumptions = [
        "effective nonce/private key from random bytes: v if v < n else (v mod (n-1)) + 1 (bn_mod_reduce; pinned by the header's published vectors)",
        "the *_le entry points are the byte-reversed mirror of *_be: leftmost bits of the standard = most significant bits",
        "GOST: e = alpha mod q over the whole hash string, 0 -> 1 (RFC 7091 5.3/5.4)",
        "a public key is valid iff it is not O, lies on the curve with coordinates < p and n*Q = O",
    ]
    exes, meta = build_variants(report, tier)
    if not exes:
        raise common.Inconclusive("no build variant compiles")
    curves = ec.curve_list()
    names = sorted(exes)
    groups = [[v] for v in names]
    jobs = []
    only = curve_filter(report)
    if not only and tier == "quick":
        only = quick_subset(curves, PROP)
        report.extra["quick_curve_subset"] = sorted(only)
    for ci in range(len(curves)):
        if only and curves[ci].name not in only:
            continue
        mine = [g for g in groups if not (g[0].startswith("d8-") and curves[ci].bits > 256)]
        # failpoint enumeration: one variant per (curve, order), rotating over the variants
        # (N is 10^4..2*10^5 checked statuses per call, so positions are stride-sampled)
        fv = {"be": names[ci % len(names)], "le": names[(ci + 2) % len(names)]}
        if tier == "thorough" and curves[ci].name == "secp112r1" and "t64-chk" in exes:
            fv = {"be": "t64-chk", "le": "t64-chk"}     # the exhaustive enumeration runs in the suite's configuration
        for oi in range(len(ORDERS)):
            for g in mine:
                jobs.append({"ci": ci, "oi": oi, "tier": tier, "exes": {v: exes[v] for v in g}, "meta": meta,
                             "fault_variant": fv})
    # big curves first so the pool drains evenly
    jobs.sort(key=lambda j: -curves[j["ci"]].bits)
    for part in common.parallel(work_curve, jobs):
        report.merge(part)
    for k in ("fault_positions_total", "fault_positions_hit"):
        report.extra.setdefault(k, 0)
    import resource
    ru = resource.getrusage(resource.RUSAGE_CHILDREN)
    report.extra["cpu_s_children"] = round(ru.ru_utime + ru.ru_stime, 1)
    if any(v.startswith("d8-") for v in names):
        report.extra["variant_restrictions"] = "8-bit-digit variant runs on curves <= 256 bit only (cost ~25x)"
    report.extra["fault_enumeration"] = (
        "per (curve, byte order): one build variant; positions stride-sampled over the N checked statuses of one call "
        "(quick ~14-20 per plan, thorough 40-100 per plan and ALL positions of the plans with N <= 45000 on secp112r1 in the suite's configuration)")
    if report.extra["fault_positions_hit"] == 0:
        report.inconclusive.append("failpoint never fired")
    if report.extra.get("sign_equal_reference", 0) == 0:
        report.inconclusive.append("no library signature equalled the reference: sign monitor saw nothing")
    return report.finish()


def quick_subset(curves, prop):
    """Quick tier: a seeded rotating subset of 10 of the 32 curves (thorough runs all).  Always inside:
    secp521r1 (bit length not a multiple of 8), one cofactor-4 curve, one Brainpool curve, one curve whose
    order is one bit longer than the field (secp160*/secp224k1), three GOST curves of which one has
    generator x in {0, 1} and one is a 512-bit set; the rest below 384 bits."""
    rng = Rng(prop, "quick-subset", common.seed())
    by = {c.name: c for c in curves}
    pick = ["secp521r1"]

    def one(names):
        names = [n for n in names if n in by and n not in pick]
        if names:
            pick.append(rng.choice(names))
    one(["secp112r2", "secp128r2"])
    one([n for n in by if n.startswith("brainpool") and by[n].bits < 384])
    one(["secp160k1", "secp160r1", "secp160r2", "secp224k1"])
    if prop == "C09":
        # C09: always a curve whose generator has x = 0 (x = 0 is a legitimate DH secret there) and
        # id-GostR3410-2001-ParamSet-cc, the one table entry whose cofactor (1) is not the true one (2)
        one([n for n in by if by[n].algo == ecdsa.ALGO_GOST and by[n].gx == 0])
        one(["id-GostR3410-2001-ParamSet-cc"])
    else:
        one([n for n in by if by[n].algo == ecdsa.ALGO_GOST and by[n].gx in (0, 1)])
        one([n for n in by if by[n].algo == ecdsa.ALGO_GOST and by[n].bits == 256])
    one([n for n in by if by[n].algo == ecdsa.ALGO_GOST and by[n].bits > 256])
    rest = [n for n in by if n not in pick and by[n].bits < 384]
    rng.shuffle(rest)
    pick += rest[:10 - len(pick)]
    return set(pick)


def curve_filter(report):
    """Development aid (never set by the registered commands): VERIF_CURVES=name,name restricts the
    workload; such a run is reported inconclusive when it finds nothing."""
    v = os.environ.get("VERIF_CURVES", "").strip()
    if not v:
        return None
    only = set(x for x in v.split(",") if x)
    report.extra["curve_filter"] = sorted(only)
    report.inconclusive.append("VERIF_CURVES restricts the workload to %d curves" % len(only))
    return only


def replay(path):
    with open(path) as fh:
        rec = json.load(fh)
    w = rec["witness"]
    exe = common.build("c03_ecdsa", [DRIVER], san=w.get("san", "asu"), cc=w.get("cc", "gcc"), flags=w["flags"])
    case = bytes.fromhex(w["case"])
    o = common.run_cases(exe, [case])[0]
    print("key      :", rec["key"])
    print("variant  :", w["variant"], " ".join(w["flags"]))
    print("note     :", w.get("note"))
    print("expected :", w.get("expect"))
    print("recorded :", w.get("observed"))
    if isinstance(o, common.Crash):
        print("observed : %r\n%s" % (o, (o.report or "")[-2500:]))
        return 1
    ob = Obs(o)
    cur = {"rc": ob.rc, "failpoint_calls": ob.calls, "failpoint_fired": ob.fired, "failpoint_func": ob.func}
    op = case[0]
    order = "little" if case[2] & 1 else "big"
    if op == OP_SIGN and ob.rc == 0:
        ob.r.u32()
        cur["r"] = hex(int.from_bytes(ob.r.blob(), order))
        cur["s"] = hex(int.from_bytes(ob.r.blob(), order))
    print("observed :", cur)
    exp = w.get("expect") or {}
    still = True
    if exp == "error":
        still = ob.rc == 0
    if isinstance(exp, dict):
        if "accept" in exp:
            still = (ob.rc == 0) != bool(exp["accept"])
        elif "r" in exp and "s" in exp and "r" in cur:
            still = (cur["r"], cur["s"]) != (exp["r"], exp["s"])
        elif exp.get("rc") == "non-zero":
            still = ob.rc == 0
    print("verdict  :", "still violates" if still else "no longer violates")
    return 1 if still else 0
