"""C18 - socket-address text and prefix arithmetic agree with the standard forms.

One case = one library call (or one to_str -> from_str round trip) executed by
drivers/c18_sockaddr.c on exact-size heap buffers; the observation (return codes, the whole
output buffer, reported length, resulting sockaddr) is judged against verif/oracles/netaddr.py
(own RFC 5952 formatter cross-checked with inet_ntop, `ipaddress` for validity, integer
arithmetic for masks).
"""
import json
import re

from verif import common
from verif.common import W, R, Rng, Crash
from verif.oracles import netaddr as na

PROP = "C18"
REPO_SRC = ["src/net/socket_address.c", "src/net/utils.c"]
DRIVER = ["c18_sockaddr.c"]

OP = {"tostr": 1, "fromstr": 2, "rt": 3, "len2mask": 4, "mask2len": 5, "trunc_preflen": 6, "trunc_mask": 7,
      "in_net": 8}
TOSTR_FN = {0: "sa_addr_to_str", 1: "sa_addr_port_to_str"}
FROM_FN = {0: "sa_addr_from_str", 1: "sa_addr_port_from_str", 2: "str_net_to_ss"}
BIG_IP = 64          # 46 (INET6_ADDRSTRLEN) + '[' ']' ':' 5 digits NUL = 56 -> a 64 byte buffer must do
STR_ADDR_LEN = 112   # sizeof(sun_path) + 4
PLIST = [0, 1, 9, 10, 99, 100, 999, 1000, 9999, 10000, 65535]
OCT = [0, 1, 9, 10, 99, 100, 199, 200, 255]


def hx(b):
    return bytes(b).hex()


# ----------------------------------------------------------------------------
# encoding / decoding
# ----------------------------------------------------------------------------
def encode(c):
    k = c["op"]
    w = W().u8(OP[k])
    if k in ("tostr", "rt"):
        w.u8(c["which"]).u8(c["fam"]).blob(bytes.fromhex(c["addr"])).u16(c["port"])
        if k == "tostr":
            w.u32(c["bufsize"])
    elif k == "fromstr":
        w.u8(c["which"]).blob(bytes.fromhex(c["text"])).u8(c.get("tail", 0))
    elif k == "len2mask":
        w.u8(c["fam"]).u64(c["len"])
    elif k == "mask2len":
        w.u8(c["fam"]).blob(bytes.fromhex(c["mask"]))
    elif k == "trunc_preflen":
        w.u8(c["fam"]).blob(bytes.fromhex(c["addr"])).u16(c["port"]).u16(c["preflen"])
    elif k == "trunc_mask":
        w.u8(c["fam"]).blob(bytes.fromhex(c["net"])).blob(bytes.fromhex(c["mask"]))
    elif k == "in_net":
        w.u8(c["fam"]).blob(bytes.fromhex(c["net"])).blob(bytes.fromhex(c["mask"])).blob(bytes.fromhex(c["addr"]))
    return w.done()


def read_sa(r):
    fam = r.u8()
    ab = r.blob()
    port = r.u16()
    return (fam, ab, port)


def decode(c, raw):
    r = R(raw)
    if r.u8() != OP[c["op"]]:
        raise ValueError("op mismatch")
    k = c["op"]
    o = {}
    if k in ("tostr", "rt"):
        o["rc_init"] = r.i32()
        o["sa"] = read_sa(r)
        o["rc"] = r.i32()
        o["size_ret"] = r.u64()
        o["buf"] = r.blob()
        if k == "rt":
            o["rc2"] = r.i32()
            o["back"] = read_sa(r)
    elif k == "fromstr":
        o["rc"] = r.i32()
        o["sa"] = read_sa(r)
        o["preflen"] = r.u16()
        o["scope"], o["flow"] = r.u32(), r.u32()
    elif k == "len2mask":
        o["rc"] = r.i32()
        o["mask"] = r.blob()
        o["back"] = r.i32()
    elif k == "mask2len":
        o["len"] = r.i32()
    elif k == "trunc_preflen":
        o["sa"] = read_sa(r)
    elif k == "trunc_mask":
        o["net"] = r.blob()
        o["mask"] = r.blob()
    elif k == "in_net":
        o["r"] = r.i32()
    return o


# ----------------------------------------------------------------------------
# evidence helpers
# ----------------------------------------------------------------------------
def shape(fam, ab):
    if fam == 4:
        return "v4-len%d" % len(na.fmt4(ab))
    if fam == 1:
        return "unix-len%d" % min(len(ab) // 16, 7)
    w = [(ab[2 * i] << 8) | ab[2 * i + 1] for i in range(8)]
    best = (-1, 0)
    i = 0
    while i < 8:
        if w[i] == 0:
            j = i
            while j < 8 and w[j] == 0:
                j += 1
            if j - i > best[1]:
                best = (i, j - i)
            i = j
        else:
            i += 1
    s = "zr%d+%d" % best if best[1] else "zr-none"
    if na.fmt6(ab) != na.fmt6(ab, False):
        s += "-mixed"
    return s


def portcls(p):
    return "p0" if p == 0 else "p%dd%s" % (len(str(p)), "-pow10" if str(p).strip("0") == "1" and p >= 10 else "")


def ordinary_path(p):
    return bool(re.match(rb"^(/|\./)[A-Za-z0-9._/-]*$", p)) and 0 < len(p) <= 107 and not p.endswith(b"/.")


# ----------------------------------------------------------------------------
# judging
# ----------------------------------------------------------------------------
def judge(c, o):
    """-> (violations [(key, expected, observed)], evidence class tuple, counters [names])"""
    k = c["op"]
    v = []
    notes = []
    if k in ("tostr", "rt"):
        which, fam, port = c["which"], c["fam"], c["port"]
        ab = bytes.fromhex(c["addr"])
        fn = TOSTR_FN[which]
        n = c["bufsize"] if k == "tostr" else STR_ADDR_LEN
        eff_ab = ab[:107] if fam == 1 else ab
        eff_port = 0 if fam == 1 else port
        if o["rc_init"] != 0 or o["sa"] != (fam, eff_ab, eff_port):
            v.append(("oracle:sa_init:wrong-sockaddr", [fam, hx(eff_ab), eff_port],
                      [o["rc_init"], o["sa"][0], hx(o["sa"][1]), o["sa"][2]]))
        E = na.expected_texts(fam, eff_ab, eff_port, bool(which))
        L = len(E[0])
        rel = "n0" if n == 0 else "n<=L" if n <= L else "n=L+1" if n == L + 1 else "n<big" if n < (
            BIG_IP if fam != 1 else STR_ADDR_LEN) else "big"
        outcome = "ok"
        buf = o["buf"]
        if o["rc"] == 0:
            z = buf.find(b"\0")
            if n == 0:
                outcome = "accepted-zero-size"
                v.append(("oracle:%s:zero-size-buffer-accepted" % fn, "error", {"rc": 0}))
            elif z < 0:
                outcome = "no-terminator"
                v.append(("oracle:%s:no-terminator" % fn, E[0], {"rc": 0, "buf": buf.decode("latin-1")}))
            else:
                text = buf[:z].decode("latin-1")
                if text not in E:
                    outcome = "wrong-text:" + classify_wrong_text(fam, eff_ab, eff_port, which, text)
                    v.append(("oracle:%s:%s" % (fn, outcome), E[0],
                              {"rc": 0, "text": text, "size_ret": o["size_ret"], "buf_size": n}))
                elif o["size_ret"] != len(text):
                    outcome = "wrong-length"
                    v.append(("oracle:%s:wrong-length" % fn, len(text), {"text": text, "size_ret": o["size_ret"]}))
                elif k == "rt":
                    gate = fam != 1 or ordinary_path(eff_ab)
                    ffn = FROM_FN[which]
                    if o["rc2"] != 0:
                        outcome = "rt-rejected"
                        if gate:
                            v.append(("oracle:%s:rejected-own-output" % ffn, [fam, hx(eff_ab), eff_port],
                                      {"text": text, "rc": o["rc2"]}))
                        else:
                            notes.append("free_unix_odd_path_rt_rejected")
                    elif o["back"] != (fam, eff_ab, eff_port if which else 0):
                        outcome = "rt-mismatch"
                        if gate:
                            v.append(("oracle:%s:roundtrip-mismatch" % ffn, [fam, hx(eff_ab), eff_port],
                                      {"text": text, "parsed": [o["back"][0], hx(o["back"][1]), o["back"][2]]}))
                        else:
                            notes.append("free_unix_odd_path_rt_mismatch")
                    else:
                        outcome = "rt-ok"
        else:
            outcome = "refused"
            if n >= (BIG_IP if fam != 1 else STR_ADDR_LEN):
                outcome = "sufficient-refused"
                v.append(("oracle:%s:sufficient-buffer-refused" % fn, E[0], {"rc": o["rc"], "buf_size": n}))
            elif n > L + 1:
                notes.append("conservative_refusal_%s" % fn)
        return v, ("v%d" % fam if fam != 1 else "unix", fn, shape(fam, eff_ab), portcls(eff_port) if which else "-",
                   rel, outcome), notes
    if k == "fromstr":
        which = c["which"]
        fn = FROM_FN[which]
        t = bytes.fromhex(c["text"])
        cl = (na.classify_addr_text, na.classify_addr_port_text, na.classify_net_text)[which](t)
        got = None
        if o["rc"] == 0:
            got = (o["sa"][0], o["sa"][1], o["sa"][2], o["preflen"])
        outcome = "ok"
        kc = re.sub(r"\d+", "", cl[-1])
        if cl[0] == "accept":
            fam, ab = cl[1], cl[2]
            port = cl[3] if which == 1 else 0
            pl = cl[3] if which == 2 else None
            if got is None:
                outcome = "rejected-valid"
                v.append(("oracle:%s:rejected-valid:%s" % (fn, kc), [fam, hx(ab), port, pl],
                          {"text": t.decode("latin-1"), "rc": o["rc"]}))
            elif got[:3] != (fam, ab, port) or (pl is not None and got[3] != pl):
                outcome = "wrong-value"
                v.append(("oracle:%s:wrong-value:%s" % (fn, kc), [fam, hx(ab), port, pl],
                          {"text": t.decode("latin-1"), "parsed": [got[0], hx(got[1]), got[2], got[3]]}))
            else:
                outcome = "accepted"
            if got is not None and b"%" not in t and (o["scope"] or o["flow"]):
                # the result object held 0xA5 bytes before the call: fields the text does not set must not keep them
                outcome = "stale-fields"
                v.append(("oracle:%s:stale-bytes-in-result" % fn, [0, 0], {"text": t.decode("latin-1"), "scope_id": o["scope"], "flowinfo": o["flow"]}))
        elif cl[0] == "reject":
            if got is not None:
                outcome = "accepted-invalid"
                v.append(("oracle:%s:accepted-invalid:%s" % (fn, kc), "error",
                          {"text": t.decode("latin-1"), "parsed": [got[0], hx(got[1]), got[2], got[3]]}))
            else:
                outcome = "rejected"
        else:
            outcome = "free-accepted" if got is not None else "free-rejected"
            notes.append("free_%s_%s_%s" % (fn, kc, "accepted" if got is not None else "rejected"))
        return v, ("text", fn, cl[0] + ":" + cl[-1], outcome), notes
    fam = c["fam"]
    mx = 32 if fam == 4 else 128
    if k == "len2mask":
        fn = "inet_len2mask" if fam == 4 else "inet6_len2mask"
        bfn = "inet_mask2len" if fam == 4 else "inet6_mask2len"
        l = c["len"]
        outcome = "ok"
        if l <= mx:
            if o["rc"] != 0 or o["mask"] != na.mask_bytes(fam, l):
                outcome = "wrong-mask"
                v.append(("oracle:%s:wrong-mask" % fn, hx(na.mask_bytes(fam, l)), {"len": l, "rc": o["rc"], "mask": hx(o["mask"])}))
            elif o["back"] != l:
                outcome = "not-inverse"
                v.append(("oracle:%s:not-inverse" % bfn, l, {"mask": hx(o["mask"]), "len": o["back"]}))
        elif o["rc"] == 0:
            outcome = "accepted-invalid-length"
            v.append(("oracle:%s:accepted-invalid-length" % fn, "error", {"len": l, "mask": hx(o["mask"])}))
        else:
            outcome = "refused"
        edge = "edge" if l in (0, 1, mx - 1, mx, mx + 1) or l % 32 in (0, 1, 31) else "mid"
        return v, ("v%d" % fam, fn, edge if l <= mx else "over", outcome), notes
    if k == "mask2len":
        fn = "inet_mask2len" if fam == 4 else "inet6_mask2len"
        l = c["len"]
        outcome = "ok"
        if o["len"] != l:
            outcome = "wrong-length"
            v.append(("oracle:%s:wrong-length" % fn, l, {"mask": c["mask"], "len": o["len"]}))
        return v, ("v%d" % fam, fn, "len%d" % (l // 8), outcome), notes
    if k == "trunc_preflen":
        ab = bytes.fromhex(c["addr"])
        pl = c["preflen"]
        outcome = "ok"
        if pl <= mx:
            exp = (fam, na.band(ab, na.mask_bytes(fam, pl)), c["port"])
            if o["sa"] != exp:
                outcome = "wrong-result"
                v.append(("oracle:net_addr_truncate_preflen:wrong-result", [fam, hx(exp[1]), exp[2]],
                          {"addr": c["addr"], "preflen": pl, "result": [o["sa"][0], hx(o["sa"][1]), o["sa"][2]]}))
        else:
            outcome = "over-unjudged"
            notes.append("free_truncate_preflen_over_%s" % ("unchanged" if o["sa"][1] == ab else "changed"))
        return v, ("v%d" % fam, "net_addr_truncate_preflen", "pl%s" % ("0" if pl == 0 else "max" if pl == mx else
                                                                     "over" if pl > mx else "b%d" % (pl % 8)), outcome), notes
    if k == "trunc_mask":
        net, mask = bytes.fromhex(c["net"]), bytes.fromhex(c["mask"])
        outcome = "ok"
        if o["net"] != na.band(net, mask) or o["mask"] != mask:
            outcome = "wrong-result"
            v.append(("oracle:net_addr_truncate_mask:wrong-result", hx(na.band(net, mask)),
                      {"net": c["net"], "mask": c["mask"], "result": hx(o["net"]), "mask_after": hx(o["mask"])}))
        return v, ("v%d" % fam, "net_addr_truncate_mask", c.get("mk", "-"), outcome), notes
    if k == "in_net":
        net, mask, addr = bytes.fromhex(c["net"]), bytes.fromhex(c["mask"]), bytes.fromhex(c["addr"])
        canonical = na.band(net, mask) == net
        inside = na.band(addr, mask) == net
        outcome = "ok"
        if not canonical:
            outcome = "free-noncanonical-net"
            notes.append("free_is_addr_in_net_noncanonical_net_%d" % (1 if o["r"] else 0))
        elif bool(o["r"]) != inside:
            outcome = "wrong-result"
            v.append(("oracle:is_addr_in_net:wrong-result", int(inside),
                      {"net": c["net"], "mask": c["mask"], "addr": c["addr"], "result": o["r"]}))
        return v, ("v%d" % fam, "is_addr_in_net", c.get("mk", "-"), "in" if inside else "out", outcome), notes
    return v, ("?",), notes


def classify_wrong_text(fam, ab, port, which, text):
    if which == 1 and fam in (4, 6):
        pow10 = port >= 10 and str(port).strip("0") == "1"
        for a in (na.fmt6_all(ab) if fam == 6 else [na.fmt4(ab)]):
            if fam == 6:
                br = "[" + a[:-1] + "]"
                if text == br + (":%d" % port if port else ""):
                    return "ipv6-bracket-overwrites-last-char"
                if pow10 and text == br + "%d" % port:
                    return "ipv6-bracket-overwrites-last-char"
                if pow10 and text == "[" + a + "]" + "%d" % port:
                    return "port-pow10-colon-lost"
            elif pow10 and text == a + "%d" % port:
                return "port-pow10-colon-lost"
    return "other"


# ----------------------------------------------------------------------------
# case generation
# ----------------------------------------------------------------------------
def v6_shapes(rng):
    out = []
    for base in range(8):
        for ln in range(0, 9 - base):
            for mode in range(3):
                w = []
                for i in range(8):
                    if base <= i < base + ln:
                        w.append(0)
                    elif mode == 0:
                        w.append(1)
                    elif mode == 1:
                        w.append(0xFFFF)
                    else:
                        w.append(rng.choice([rng.range(1, 0xF), rng.range(0x10, 0xFF), rng.range(0x100, 0xFFF),
                                             rng.range(0x1000, 0xFFFF)]))
                out.append(b"".join(x.to_bytes(2, "big") for x in w))
            # a second, shorter or equal, zero run elsewhere
            for b2 in range(8):
                for l2 in (1, 2, ln):
                    if l2 == 0 or b2 + l2 > 8 or not (b2 + l2 < base or b2 > base + ln):
                        continue
                    w = [rng.range(1, 0xFFFF) for _ in range(8)]
                    for i in range(base, base + ln):
                        w[i] = 0
                    for i in range(b2, b2 + l2):
                        w[i] = 0
                    out.append(b"".join(x.to_bytes(2, "big") for x in w))
    for q in ([1, 2, 3, 4], [255, 255, 255, 255], [0, 0, 0, 1], [0, 0, 1, 0], [10, 0, 0, 1], [0, 1, 0, 2]):
        out.append(b"\0" * 10 + b"\xff\xff" + bytes(q))
        out.append(b"\0" * 12 + bytes(q))
        out.append(b"\0" * 8 + b"\xff\xff\0\0" + bytes(q))
        out.append(b"\0\x64\xff\x9b" + b"\0" * 8 + bytes(q))
    out += [b"\0" * 16, b"\xff" * 16, b"\0" * 15 + b"\1", b"\0" * 15 + b"\2", b"\xfe\x80" + b"\0" * 13 + b"\1",
            bytes.fromhex("20010db8000000000000000000000001")]
    seen = set()
    res = []
    for a in out:
        if a not in seen:
            seen.add(a)
            res.append(a)
    return res


def rand_v6(rng):
    b = bytearray(rng.bytes(16))
    m = rng.below(4)
    if m == 0:
        return bytes(b)
    for i in range(8):
        if rng.chance(1, 2 if m == 1 else 3):
            b[2 * i] = 0
            if rng.chance(2, 3):
                b[2 * i + 1] = 0
    return bytes(b)


def rand_path(rng, ordinary=True):
    ln = rng.choice([1, 2, 5, 20, 60, 100, 106, 107, rng.range(1, 107)])
    alpha = "abcXYZ019._-/" if ordinary else "abc019._-/: ]["
    s = rng.choice(["/", "./", "/"]) if ordinary else rng.choice(["/", ".", "x", "/"])
    while len(s) < ln:
        s += alpha[rng.below(len(alpha))]
    s = s[:ln]
    if ordinary and s.endswith("/."):
        s = s[:-1] + "a"
    return s.encode("latin-1")


def gen_rt(rng, widx, nworkers, tier):
    cases = []
    nrand4 = (100000 if tier == "quick" else 1000000) // nworkers
    nrand6 = (20000 if tier == "quick" else 200000) // nworkers
    # IPv4 boundary grid, split over workers
    grid = [bytes([a, b, c, d]) for a in OCT for b in OCT for c in OCT for d in OCT]
    for i, ab in enumerate(grid):
        if i % nworkers != widx:
            continue
        cases.append({"op": "rt", "which": 0, "fam": 4, "addr": hx(ab), "port": 0})
        cases.append({"op": "rt", "which": 1, "fam": 4, "addr": hx(ab), "port": PLIST[i % len(PLIST)]})
    for _ in range(nrand4):
        ab = rng.bytes(4)
        if rng.chance(1, 2):
            cases.append({"op": "rt", "which": 0, "fam": 4, "addr": hx(ab), "port": rng.choice([0, rng.below(65536)])})
        else:
            p = rng.choice(PLIST) if rng.chance(1, 3) else rng.below(65536)
            cases.append({"op": "rt", "which": 1, "fam": 4, "addr": hx(ab), "port": p})
    shapes = v6_shapes(Rng(PROP, common.seed(), "shapes"))
    for i, ab in enumerate(shapes):
        if i % nworkers != widx:
            continue
        cases.append({"op": "rt", "which": 0, "fam": 6, "addr": hx(ab), "port": 0})
        for p in (PLIST[i % len(PLIST)], PLIST[(i // 3) % len(PLIST)], rng.below(65536)):
            cases.append({"op": "rt", "which": 1, "fam": 6, "addr": hx(ab), "port": p})
    for _ in range(nrand6):
        ab = rand_v6(rng)
        if rng.chance(1, 2):
            cases.append({"op": "rt", "which": 0, "fam": 6, "addr": hx(ab), "port": 0})
        else:
            p = rng.choice(PLIST) if rng.chance(1, 3) else rng.below(65536)
            cases.append({"op": "rt", "which": 1, "fam": 6, "addr": hx(ab), "port": p})
    # ports: list x fixed addresses; all 65536 in thorough
    fixed = [(4, bytes([10, 1, 2, 3])), (4, bytes([255, 255, 255, 255])), (6, bytes.fromhex("20010db8" + "00" * 11 + "01")),
             (6, b"\xff" * 16)]
    ports = list(PLIST) + [rng.below(65536) for _ in range(40)]
    if tier == "thorough":
        ports = list(range(65536))
    for i, p in enumerate(ports):
        if i % nworkers != widx:
            continue
        for fam, ab in fixed:
            cases.append({"op": "rt", "which": 1, "fam": fam, "addr": hx(ab), "port": p})
    # UNIX paths
    for i in range(60 if tier == "quick" else 600):
        if i % nworkers != widx:
            continue
        r = Rng(PROP, common.seed(), "path", i)
        pth = rand_path(r, ordinary=(i % 4 != 3))
        cases.append({"op": "rt", "which": i % 2, "fam": 1, "addr": hx(pth), "port": 0})
    return cases


def gen_sweep(rng, widx, nworkers, tier):
    """to_str into exact-size buffers of every size 0 .. len+9"""
    cases = []
    addrs = [(4, bytes([0, 0, 0, 0])), (4, bytes([255, 255, 255, 255])), (4, bytes([10, 1, 2, 3])),
             (4, bytes([1, 20, 255, 4])),
             (6, b"\0" * 16), (6, b"\xff" * 16), (6, bytes.fromhex("20010db8" + "00" * 11 + "01")),
             (6, b"\0" * 10 + b"\xff\xff" + b"\xff" * 4), (6, b"\0" * 15 + b"\1"),
             (6, bytes.fromhex("00010000000000000000000000000000")),
             (1, b"/"), (1, b"/tmp/sock"), (1, b"./a"), (1, b"/" + b"p" * 106)]
    r2 = Rng(PROP, common.seed(), "sweepaddrs")
    for _ in range(12 if tier == "quick" else 60):
        addrs.append((4, r2.bytes(4)))
        addrs.append((6, rand_v6(r2)))
    shapes = v6_shapes(Rng(PROP, common.seed(), "shapes"))
    for i in range(0, len(shapes), 29 if tier == "quick" else 5):
        addrs.append((6, shapes[i]))
    idx = 0
    for fam, ab in addrs:
        for which in (0, 1):
            ports = [0] if (which == 0 or fam == 1) else [0, 7, 80, 100, 65535]
            for port in ports:
                idx += 1
                if idx % nworkers != widx:
                    continue
                L = len(na.expected_texts(fam, ab[:107], port, bool(which))[0])
                for n in range(0, L + 10):
                    cases.append({"op": "tostr", "which": which, "fam": fam, "addr": hx(ab), "port": port, "bufsize": n})
                cases.append({"op": "tostr", "which": which, "fam": fam, "addr": hx(ab), "port": port,
                              "bufsize": BIG_IP if fam != 1 else STR_ADDR_LEN})
    return cases


MUT_ALPHA = b"0123456789abcdefgG:.[]/ %xZ-+\t\0,"
HAND_TEXTS = [
    (1, "1.2.3.4:65536"), (1, "1.2.3.4:99999"), (1, "1.2.3.4:655350"), (1, "[::1]:65536"), (1, "[::1]:70000"),
    (1, "1.2.3.4:http"), (1, "1.2.3.4:8o"), (1, "[::1]:x"), (1, "1.2.3.4:"), (1, "[::1]:"), (1, "1.2.3.4:080"),
    (1, "1.2.3.4:+80"), (1, "1.2.3.4: 80"), (1, "1.2.3.4:80 "), (1, "1.2.3.4 :80"), (1, "[::1] :80"),
    (1, "[::1]x:80"), (1, "x[::1]:80"), (1, "[::1:80"), (1, "::1]:80"), (1, "2001:db8::1:80"), (1, "::1"),
    (1, "1:2:3:4:5:6:7:8"), (1, "[1.2.3.4]:80"), (1, "1.2.3:80"), (1, "1.2.3.4.5:80"), (1, ":80"), (1, ":"),
    (1, "1.2.3.4:80:90"), (1, "[::1]:80:90"), (1, "[::1]]:80"), (1, "[[::1]:80"), (1, "1.2.3.4:-1"), (1, "1.2.3.4:0"),
    (1, "1.2.3.4:65535"), (1, "[ffff:ffff:ffff:ffff:ffff:ffff:255.255.255.255]:65535"), (1, "/tmp/x:80"), (1, "/tmp/x"),
    (0, "2001:db8::1:"), (0, ":2001:db8::1"), (0, "::1:"), (0, "1.2.3.4:"), (0, "1.2.3.4."), (0, ".1.2.3.4"),
    (0, "1.2.3.4:80"), (0, "[::1]:80"), (0, "[::1]"), (0, "[::1"), (0, "::1]"), (0, "[[::1]]"), (0, "[ ::1 ]"),
    (0, " [::1] "), (0, "\t1.2.3.4\t"), (0, "[1.2.3.4]"), (0, "[]"), (0, "[ ]"), (0, " "), (0, "["), (0, "]"),
    (0, "::1%eth0"), (0, "fe80::1%1"), (0, "1.2.3.4\0"), (0, "1.2.3.4\0junk"), (0, "::1\0"), (0, "1.2.3.4\n"),
    (0, "01.2.3.4"), (0, "1.2.3.04"), (0, "0x1.2.3.4"), (0, "1.2.3"), (0, "1.2.3.4.5"), (0, "256.1.1.1"),
    (0, "1::2:3:4:5:6:7:8"), (0, "1:2:3:4:5:6:7:8:9"), (0, "12345::"), (0, "g::"), (0, "1:::2"), (0, "::1::"),
    (0, "::ffff:1.2.3.4"), (0, "::ffff:1.2.3"), (0, "1:2:3:4:5:6:7:1.2.3.4"), (0, "1:2:3:4:5:6:1.2.3.4"),
    (0, "x" * 111), (0, "1" * 112), (0, "/" + "p" * 110), (0, "/" + "p" * 111), (0, "/" + "p" * 200), (0, "sock"),
    (2, "127.0.0.0/8"), (2, "[2001:4f8:fff6::]/32"), (2, "2001:4f8:fff6::28/32"), (2, "1.2.3.4/0"), (2, "1.2.3.4/32"),
    (2, "1.2.3.4/33"), (2, "1.2.3.4/99"), (2, "1.2.3.4/65536"), (2, "::/0"), (2, "::/128"), (2, "::/129"),
    (2, "::1/65664"), (2, "1.2.3.4/"), (2, "1.2.3.4/x"), (2, "1.2.3.4/08"), (2, "1.2.3.4/ 8"), (2, "1.2.3.4/-8"),
    (2, "1.2.3.4"), (2, "::1"), (2, "[::1]"), (2, "1.2.3/8"), (2, "/8"), (2, "/"), (2, "1.2.3.4/8/9"), (2, "1.2.3.4//8"),
]


def mutate(rng, t):
    t = bytearray(t)
    for _ in range(rng.choice([1, 1, 1, 2, 3])):
        m = rng.below(9)
        pos = rng.below(len(t) + 1)
        ch = MUT_ALPHA[rng.below(len(MUT_ALPHA))]
        if m == 0 and t:
            del t[min(pos, len(t) - 1)]
        elif m == 1:
            t.insert(pos, ch)
        elif m == 2 and t:
            t[min(pos, len(t) - 1)] = ch
        elif m == 3:
            t = t[:pos]
        elif m == 4:
            t += bytes([ch])
        elif m == 5:
            t = bytearray([ch]) + t
        elif m == 6 and t:
            a = min(pos, len(t) - 1)
            t = t[:a] + t[a:a + 3] + t[a:]
        elif m == 7:
            t += rng.choice([b":", b".", b"]", b" ", b":80", b"/24", b"::", b":0", b"%1"])
        elif m == 8 and len(t) > 1:
            a = rng.below(len(t) - 1)
            t[a], t[a + 1] = t[a + 1], t[a]
    return bytes(t)


def gen_text(rng, widx, nworkers, tier):
    cases = []
    n = (24000 if tier == "quick" else 400000) // nworkers
    shapes = v6_shapes(Rng(PROP, common.seed(), "shapes"))
    for i, (which, s) in enumerate(HAND_TEXTS):
        if i % nworkers == widx:
            cases.append({"op": "fromstr", "which": which, "text": hx(s.encode("latin-1")), "src": "hand"})
    for _ in range(n):
        which = rng.choice([0, 0, 1, 1, 2])
        if rng.chance(1, 2):
            ab = rng.bytes(4) if rng.chance(1, 2) else bytes(rng.choice(OCT) for _ in range(4))
            core = na.fmt4(ab)
            fam = 4
        else:
            ab = rng.choice(shapes) if rng.chance(1, 2) else rand_v6(rng)
            core = rng.choice(na.v6_spellings(ab))
            fam = 6
        d = rng.below(10)
        if fam == 6 and (d < 4 or which == 1):
            core = "[" + core + "]"
        elif d == 8:
            core = rng.choice([" ", "\t", "  "]) + core
        elif d == 9:
            core = core + rng.choice([" ", "\t"])
        if which == 1 and rng.chance(4, 5):
            core += ":%d" % (rng.choice(PLIST) if rng.chance(1, 2) else rng.below(65536))
        if which == 2 and rng.chance(4, 5):
            core += "/%d" % rng.range(0, 32 if fam == 4 else 128)
        t = core.encode("latin-1")
        src = "valid"
        if rng.chance(1, 2):
            t = mutate(rng, t)
            src = "mutated"
        cases.append({"op": "fromstr", "which": which, "text": hx(t), "src": src})
        if src == "valid" and rng.chance(1, 2):
            # the same text as a slice of a longer buffer: decimal digits follow directly behind it
            cases.append({"op": "fromstr", "which": which, "text": hx(t), "src": "valid+digits-behind", "tail": 3})
    return cases


def gen_mask(rng, widx, nworkers, tier):
    cases = []
    if widx == 0:
        for fam, mx in ((4, 32), (6, 128)):
            for l in list(range(mx + 1)) + [mx + 1, mx + 2, 255, 256, 65535, 1 << 32, (1 << 64) - 1]:
                cases.append({"op": "len2mask", "fam": fam, "len": l})
            for l in range(mx + 1):
                cases.append({"op": "mask2len", "fam": fam, "mask": hx(na.mask_bytes(fam, l)), "len": l})
    n = (4000 if tier == "quick" else 60000) // nworkers
    for i in range(n):
        fam = rng.choice([4, 6])
        mx, nb = (32, 4) if fam == 4 else (128, 16)
        pl = rng.choice([0, 1, mx - 1, mx, rng.range(0, mx), rng.range(0, mx), 8 * rng.range(0, nb)])
        addr = rng.bytes(nb) if rng.chance(3, 4) else rng.choice([b"\xff" * nb, b"\0" * nb])
        x = rng.below(4)
        if x == 0:
            plx = pl if rng.chance(9, 10) else rng.choice([mx + 1, 200, 65535])
            cases.append({"op": "trunc_preflen", "fam": fam, "addr": hx(addr), "port": rng.choice([0, 80, 65535]),
                          "preflen": plx})
        elif x == 1:
            if rng.chance(2, 3):
                mask, mk = na.mask_bytes(fam, pl), "contig%d" % (pl % 8)
            else:
                mask, mk = rng.bytes(nb), "arbitrary"
            cases.append({"op": "trunc_mask", "fam": fam, "net": hx(addr), "mask": hx(mask), "mk": mk})
        else:
            if rng.chance(5, 6):
                mask, mk = na.mask_bytes(fam, pl), "contig%d" % (pl % 8)
            else:
                mask, mk = rng.bytes(nb), "arbitrary"
            net = na.band(addr, mask) if rng.chance(9, 10) else addr
            y = rng.below(5)
            a = bytearray(addr)
            if y == 0:
                a = bytearray(rng.bytes(nb))
            elif y == 1 and pl > 0:
                bit = pl - 1                       # last bit of the prefix flipped -> outside
                a[bit // 8] ^= 0x80 >> (bit % 8)
            elif y == 2 and pl < mx:
                bit = pl                           # first host bit flipped -> still inside
                a[bit // 8] ^= 0x80 >> (bit % 8)
            elif y == 3:
                bit = rng.below(mx)
                a[bit // 8] ^= 0x80 >> (bit % 8)
            cases.append({"op": "in_net", "fam": fam, "net": hx(net), "mask": hx(mask), "addr": hx(bytes(a)), "mk": mk})
    return cases


STREAMS = {"rt": gen_rt, "sweep": gen_sweep, "text": gen_text, "mask": gen_mask}


def entry_of(c):
    if c["op"] in ("tostr", "rt"):
        return TOSTR_FN[c["which"]]
    if c["op"] == "fromstr":
        return FROM_FN[c["which"]]
    return {"len2mask": "inet_len2mask" if c.get("fam") == 4 else "inet6_len2mask",
            "mask2len": "inet_mask2len" if c.get("fam") == 4 else "inet6_mask2len",
            "trunc_preflen": "net_addr_truncate_preflen", "trunc_mask": "net_addr_truncate_mask",
            "in_net": "is_addr_in_net"}[c["op"]]


def judge_results(variant, cases, results, part):
    for c, res in zip(cases, results):
        part["evaluations"] += 1
        common.part_count(part, "op_" + c["op"])
        if isinstance(res, Crash):
            key = common.crash_key(res, entry_of(c))
            detail = ""
            if c["op"] == "tostr":
                L = len(na.expected_texts(c["fam"], bytes.fromhex(c["addr"])[:107], c["port"], bool(c["which"]))[0])
                detail = ":buf<=textlen" if c["bufsize"] <= L else ":buf>textlen"
            if res.kind == "ubsan" and not re.search(r"out of bounds|overflow on address", res.report or ""):
                part["observations"][key] = part["observations"].get(key, 0) + 1
                continue
            part["violations"].append((key + detail, {"variant": variant, "case": c, "payload": encode(c).hex(),
                                                     "expected": "no sanitizer report / abnormal exit",
                                                     "observed": {"kind": res.kind, "rc": res.returncode,
                                                                  "report": (res.report or "")[-3500:]}}))
            part["classes"].add((entry_of(c), "crash", res.kind))
            continue
        try:
            o = decode(c, res)
        except Exception as e:
            part["inconclusive"].append("bad observation for %s: %r" % (json.dumps(c), e))
            continue
        v, cls, notes = judge(c, o)
        part["classes"].add(cls)
        for nme in notes:
            common.part_count(part, nme)
        for key, exp, obs in v:
            part["violations"].append((key, {"variant": variant, "case": c, "payload": encode(c).hex(),
                                             "expected": exp, "observed": obs}))


def worker(job):
    exes, variant, stream, widx, nworkers, tier = job
    part = common.new_part()
    rng = Rng(PROP, common.seed(), variant, stream, widx)
    cases = STREAMS[stream](rng, widx, nworkers, tier)
    results = common.run_cases(exes[variant], [encode(c) for c in cases])
    judge_results(variant, cases, results, part)
    common.part_count(part, "cases_" + stream, len(cases))
    if widx == 0:
        for c in cases[:3] + cases[len(cases) // 2:len(cases) // 2 + 2]:
            part["samples"].append({"stream": stream, "case": c})
    # keep one (the simplest) witness per key and count the rest
    best = {}
    counts = {}
    for key, w in part["violations"]:
        counts[key] = counts.get(key, 0) + 1
        if key not in best or witness_size(w) < witness_size(best[key]):
            best[key] = w
    part["violations"] = []
    part["vbest"] = best
    part["vcounts"] = counts
    return part


def witness_size(w):
    c = w["case"]
    return (len(c.get("text", "")) + len(c.get("addr", "")) // 8, c.get("bufsize", 0), c.get("port", 0),
            sum(bytes.fromhex(c.get("addr", "00"))))


def build_specs(tier):
    specs = [("asu-gcc", dict(name="c18_asu_gcc", sources=DRIVER, san="asu", cc="gcc", repo_sources=REPO_SRC))]
    if tier == "thorough":
        specs.append(("asu-clang", dict(name="c18_asu_clang", sources=DRIVER, san="asu", cc="clang",
                                        repo_sources=REPO_SRC)))
    return specs


def clean_replays():
    import os
    d = os.path.join(common.REPLAY_DIR, PROP)
    if os.path.isdir(d):
        for f in os.listdir(d):
            if f.endswith(".json"):
                try:
                    os.unlink(os.path.join(d, f))
                except OSError:
                    pass


def run(tier):
    report = common.Report(PROP, tier)
    report.rule = (
        "Cases: (a) round trips to_str->from_str for the IPv4 boundary grid (octets 0,1,9,10,99,100,199,200,255), "
        "10^5 random IPv4, IPv6 of every zero-run shape (position x length, second runs, v4-mapped/compatible/NAT64) "
        "and random IPv6, ports 0,1,9,10,99,100,999,1000,9999,10000,65535 + random (all 65536 in thorough), UNIX paths; "
        "(b) to_str into exact-size buffers of every size 0..len+9; (c) parser texts: documented spellings of random "
        "addresses (all '::' placements, leading zeros, upper case, mixed notation, brackets, blanks, :port, /len), "
        "random mutations of them and a hand-written list; (d) len2mask/mask2len for every length 0..32 / 0..128 and "
        "out-of-range lengths, truncate/in-net against integer arithmetic with contiguous and arbitrary masks.  "
        "evaluations = library calls judged.  distinct_nontrivial = distinct classes (family, function, zero-run "
        "shape or text class, port digit class, buffer-size relation or mask kind, outcome) observed.")
    report.assumptions = [
        "IPv6 text reference = own RFC 5952 formatter validated against socket.inet_ntop and ipaddress in setup; for "
        "addresses in ::/80 both the dotted-quad and the pure-hex tail are accepted",
        "port 0 may be rendered as no port at all",
        "a refusal of a buffer larger than the text but smaller than 64 bytes (IP) is tolerated (conservative size "
        "checks) and only counted",
        "parser: leading blanks/'[' and trailing blanks/']' are documented (code comments) as skipped; only balanced "
        "single brackets with blanks outside are demanded, other decorations and spellings listed under free_* "
        "counters are not judged",
    ]
    report.exhaustive = None
    clean_replays()
    exes = common.try_builds(report, build_specs(tier))
    if "asu-gcc" not in exes:
        raise common.Inconclusive("asu build failed: %s" % report.builds)
    nw = common.NCPU
    jobs = []
    for var in exes:
        for stream in STREAMS:
            for w in range(nw):
                jobs.append((exes, var, stream, w, nw, tier))
    best = {}
    counts = {}
    for part in common.parallel(worker, jobs):
        report.merge(part)
        for k, n in part["vcounts"].items():
            counts[k] = counts.get(k, 0) + n
        for k, w in part["vbest"].items():
            if k not in best or witness_size(w) < witness_size(best[k]):
                best[k] = w
    for k, w in best.items():
        w["seed"] = common.seed()
        w["build"] = {"driver": DRIVER, "repo_sources": REPO_SRC, "variant": w["variant"]}
        report.violations[k] = {"count": counts[k], "witness": w}
    report.extra["exhaustive_subdomains"] = "prefix lengths 0..32 and 0..128 (len2mask, mask2len)" + (
        "; all 65536 ports" if tier == "thorough" else "")
    for need in ("op_rt", "op_tostr", "op_fromstr", "op_len2mask", "op_in_net"):
        if report.extra.get(need, 0) == 0:
            report.inconclusive.append("no %s case was judged" % need)
    return report.finish()


def replay(path):
    with open(path) as fh:
        rec = json.load(fh)
    w = rec["witness"]
    report = common.Report(PROP, "quick")
    exes = common.try_builds(report, build_specs("thorough"))
    var = w.get("variant", "asu-gcc")
    if var not in exes:
        print("INCONCLUSIVE property=%s variant %s does not build" % (PROP, var))
        return 2
    c = w["case"]
    print("case:", json.dumps(c))
    if c.get("text"):
        print("text: %r" % bytes.fromhex(c["text"]))
    part = common.new_part()
    res = common.run_cases(exes[var], [encode(c)])
    judge_results(var, [c], res, part)
    hit = False
    for key, ww in part["violations"]:
        print("violation key=%s\n  expected: %s\n  observed: %s" % (key, json.dumps(ww["expected"], default=str),
                                                                  json.dumps(ww["observed"], default=str)[:3000]))
        hit = hit or key == rec["key"]
    if hit:
        print("REPRODUCED key=%s" % rec["key"])
        return 1
    print("not reproduced (key %s)" % rec["key"])
    return 0
