"""C13 - network message parsers are memory-safe and bounded on hostile packets.

Monitors (all are refutation events of the property itself):
  * ASan / UBSan(bounds, pointer-overflow, null) report while a parser runs on a
    message held in an exact-size heap block           -> key asan:<entry>:<kind>-<READ|WRITE>[:<innermost /repo function>]
  * per-case CPU-time alarm (ITIMER_VIRTUAL, 1 s)        -> key hang:<calling mode>
  * on a successful return, an out-parameter (pointer / offset / length) that is
    not inside the span the function was given          -> key span:<function>:<out-param>
UBSan kinds that cannot leave the object (alignment, shift, signed overflow)
are recorded as observations only.

Workload: verif/gen_c13.py (valid messages from structure-aware generators,
every single-field mutation, random strings/flips); thorough adds a libFuzzer
session per parser group whose artifacts are triaged through the same driver.

Execution: the bulk of the cases goes through the driver's --fork mode (one
driver process per chunk; an out-of-bounds READ report marks the case and the
child continues, any other report ends the child and the parent forks a new
one) because on this tree a large share of hostile packets ends in a report.
Keys are taken from the first report of a case; every key that is reported is
re-confirmed in a fresh process through the plain case protocol, which is also
what replay() uses.
"""
import json
import os
import re
import shutil
import subprocess

from verif import common
from verif import gen_c13 as gen
from verif.common import Crash, R, Report, Rng, new_part, part_count

PROP = "C13"
DRIVER = "c13_parsers.c"
REPO_SOURCES = ("src/proto/http.c",)
VARIANTS = {
    # -fsanitize-recover=address only matters in the driver's --fork mode (see c13_parsers.c)
    "gcc-O1-asu": dict(cc="gcc", san="asu", flags=("-fsanitize-recover=address",)),
    "clang-O1-asu": dict(cc="clang", san="asu", flags=("-fsanitize-recover=address",)),
}
CHUNK = 1000
NWORK = common.NCPU
QUOTA = {"quick": 320_000, "thorough": 5_000_000}
FUZZ_RUNS = {"quick": 0, "thorough": 400_000}
FUZZ_GROUPS = ("dns", "radius", "http", "sap_sdp", "rtp_ts_dhcp")

VALIDATORS = ["dns_msg_info_get", "radius_pkt_chk", "radius_pkt_verify", "dhcp4_hdr_check",
              "http_parse_req_line", "http_req_sec_chk", "http_parse_resp_line", "sap_packet_is_valid",
              "sdp_msg_sec_chk", "rtp_payload_get", "mpeg2_ts_pkt_is_valid", "mpeg2_ts_pkt_get_next",
              "http_data_decode_chunked", "mpeg2_ts_pkt_size_detect", "SequenceOfLabelsGetSize",
              "dns_msg_sequence_of_labels2name"]
# calling modes whose size-less accessors must have been reached
SEQ_LABELS = ("dns.consumer", "radius", "http.req.consumer", "sap.consumer", "ts.stream")

EXPECTED = ("no sanitizer report, no CPU-time alarm, and after a successful return every returned "
            "pointer/offset/length lies inside the span the function was given")

# run without in-process symbolisation (a sanitizer abort per hostile packet is
# common on this tree); frames are symbolised here, once per distinct pc.
ENV = {"ASAN_OPTIONS": common.SAN_ENV["ASAN_OPTIONS"].replace("symbolize=1", "symbolize=0") +
       ":halt_on_error=0:suppress_equal_pcs=0:print_legend=0:malloc_context_size=2",
       "UBSAN_OPTIONS": common.SAN_ENV["UBSAN_OPTIONS"] + ":symbolize=0"}


ENV_PLAIN = {"ASAN_OPTIONS": common.SAN_ENV["ASAN_OPTIONS"].replace("symbolize=1", "symbolize=0"),
             "UBSAN_OPTIONS": ENV["UBSAN_OPTIONS"]}


def build_spec(vname):
    v = VARIANTS[vname]
    return dict(name="c13_" + vname.replace("-", "_"), sources=[DRIVER], san=v["san"], cc=v["cc"],
                flags=list(v["flags"]), repo_sources=list(REPO_SOURCES))


# ---------------------------------------------------------------------------
# report -> key
# ---------------------------------------------------------------------------
_RAW_FRAME = re.compile(r"^\s*#(\d+) (0x[0-9a-f]+)\s+(?:in (\S+) (\S+)|\((\S+?)\+(0x[0-9a-f]+)\))", re.M)
_sym_cache = {}


_symproc = None


def _sym_query(obj, off):
    """One address through a persistent llvm-symbolizer (debug info is loaded once per worker)."""
    global _symproc
    for _attempt in (0, 1):
        try:
            if _symproc is None or _symproc.poll() is not None:
                _symproc = subprocess.Popen(["/usr/bin/llvm-symbolizer-14", "--inlines", "--functions=linkage",
                                             "--output-style=LLVM"], stdin=subprocess.PIPE, stdout=subprocess.PIPE,
                                            stderr=subprocess.DEVNULL, text=True, bufsize=1)
            _symproc.stdin.write('"%s" %s\n' % (obj, off))
            _symproc.stdin.flush()
            lines = []
            while True:
                l = _symproc.stdout.readline()
                if l == "":
                    raise OSError("symbolizer died")
                l = l.strip()
                if not l:
                    break
                lines.append(l)
            fr = []
            for j in range(0, len(lines) - 1, 2):
                fr.append((lines[j], lines[j + 1].rsplit(":", 2)[0]))
            return fr or [("??", "??")]
        except (OSError, ValueError):
            _symproc = None
    return [("??", "??")]


def _symbolize(obj, offs):
    """-> {off: [(function, file), ...]} innermost (inlined) first."""
    for o in offs:
        if (obj, o) not in _sym_cache:
            _sym_cache[(obj, o)] = _sym_query(obj, o)
    return {o: _sym_cache[(obj, o)] for o in offs}


def _adj(m):
    """module offset of a frame; return addresses (frames > 0) are moved into the call instruction"""
    off = int(m.group(6), 16)
    return hex(off - 1 if int(m.group(1)) > 0 and off > 0 else off)


def stack_frames(text):
    """First stack trace of a sanitizer report as [(function, file)], innermost first."""
    raw = []
    last = -1
    for m in _RAW_FRAME.finditer(text):
        idx = int(m.group(1))
        if idx <= last:
            break
        last = idx
        raw.append(m)
    by_obj = {}
    for m in raw:
        if m.group(5):
            by_obj.setdefault(m.group(5), []).append(_adj(m))
    sym = {obj: _symbolize(obj, sorted(set(offs))) for obj, offs in by_obj.items()}
    out = []
    for m in raw:
        if m.group(3):
            out.append((m.group(3), m.group(4).rsplit(":", 2)[0] if ":" in m.group(4) else m.group(4)))
        else:
            out.extend(sym[m.group(5)][_adj(m)])
    return out


def entry_and_inner(frames):
    inner = entry = None
    for fn, loc in frames:
        if "/drivers/c13_" in loc:
            break
        if loc.startswith(common.REPO + "/"):
            if inner is None:
                inner = fn
            entry = fn
    return entry, inner


_UB_KINDS = (
    (re.compile(r"out of bounds"), "bounds", True),
    (re.compile(r"pointer index expression|applying (non-)?zero offset|addition of unsigned offset|subtraction of unsigned offset"),
     "pointer-overflow", True),
    (re.compile(r"null pointer"), "null", True),
    (re.compile(r"misaligned"), "alignment", False),
    (re.compile(r"shift"), "shift", False),
    (re.compile(r"signed integer overflow|cannot be represented"), "int-overflow", False),
    (re.compile(r"not a valid value"), "invalid-value", False),
)


def crash_key(crash, label):
    """-> (key, gating)"""
    return crash_key_ex(crash, label)[:2]


def crash_key_ex(crash, label):
    """-> (key, gating, symbolised first stack)"""
    text = crash.report or ""
    if crash.kind == "hang":
        return "hang:" + label, True, []
    if crash.kind == "asan":
        m = re.search(r"ERROR: AddressSanitizer: (\S+)", text)
        kind = m.group(1).rstrip(":") if m else "unknown"
        if kind == "unknown-crash":
            # multi-byte access that starts inside and ends outside a block
            loc = re.search(r"is located \d+ bytes (?:to the right of|after|inside of|to the left of|before) \d+-byte region", text)
            if loc:
                kind = "heap-buffer-overflow"
        rw = re.search(r"^(READ|WRITE) of size", text, re.M)
        if rw:
            kind += "-" + rw.group(1)
        frames = stack_frames(text)
        entry, inner = entry_and_inner(frames)
        key = "asan:%s:%s" % (entry or label, kind)
        if inner and inner != entry:
            key += ":" + inner
        return key, True, frames
    if crash.kind == "ubsan":
        m = re.search(r"runtime error: ([^\n]*)", text)
        msg = m.group(1) if m else ""
        kind, gating = "other", True
        for rx, k, g in _UB_KINDS:
            if rx.search(msg):
                kind, gating = k, g
                break
        frames = stack_frames(text)
        entry, inner = entry_and_inner(frames)
        if entry is None:
            m2 = re.search(r"(\S+?):\d+:\d+: runtime error", text)
            entry = os.path.basename(m2.group(1)) if m2 else label
        key = "ubsan:%s:%s" % (entry, kind)
        if inner and inner != entry:
            key += ":" + inner
        return key, gating, frames
    return "%s:%s:rc%s" % (crash.kind, label, crash.returncode), crash.kind == "signal", []


def observed_text(crash, frames):
    txt = (crash.report or "")[:2500]
    if frames:
        txt = "stack (symbolised): " + " <- ".join("%s [%s]" % (fn, os.path.basename(loc)) for fn, loc in frames[:8]) + "\n" + txt
    return txt


_CRASH_MAGIC = b"\xff\xfeCRASH"
_CASE_END = re.compile(rb"\nVERIF-CASE-END (\d+) status=(\d+)\n")


HANGS_BEFORE_SHORT_ALARM = 8


def run_cases(exe, cases, alarm_ms=None):
    """Like common.run_cases but through the driver's --fork mode: one driver
    process per chunk, one fork per sanitizer abort.  Falls back to the plain
    protocol for whatever the fork server did not answer."""
    if not cases:
        return []
    data = b"".join(common.pack_case(c) for c in cases)
    try:
        env = common.run_env(ENV)
        if alarm_ms:
            env["C13_ALARM_MS"] = str(alarm_ms)
        p = subprocess.run([exe, "--fork"], input=data, stdout=subprocess.PIPE, stderr=subprocess.PIPE,
                           env=env, timeout=3600)
        out, err = p.stdout, p.stderr
    except subprocess.TimeoutExpired:
        out, err = b"", b""
    obs = common._parse_obs(out)[:len(cases)]
    reports = {}
    pos = 0
    for m in _CASE_END.finditer(err):
        reports[int(m.group(1))] = err[pos:m.start()]
        pos = m.end()
    res = []
    for i, o in enumerate(obs):
        if o[:7] == _CRASH_MAGIC and len(o) == 8:
            rc = o[7]
            text = reports.get(i, b"").decode("utf-8", "replace")
            res.append(Crash(common.classify_crash(rc, text), text[:8000], rc))
        else:
            res.append(o)
    if len(res) < len(cases):
        res.extend(common.run_cases(exe, cases[len(res):], env_extra=ENV_PLAIN))
    return res


def parse_obs(b):
    r = R(b)
    o = {"seen": r.u32(), "accept": r.u32(), "acc": r.u32(), "rcs": r.blob(), "fails": []}
    for _ in range(r.u32()):
        name = r.blob().decode("ascii", "replace")
        detail = r.blob().decode("ascii", "replace")
        o["fails"].append((name, detail))
    return o


# ---------------------------------------------------------------------------
# evaluation of one executed case
# ---------------------------------------------------------------------------
def _jsonable_fields(f):
    return {k: (v.hex() if isinstance(v, (bytes, bytearray)) else v) for k, v in f.items() if k != "msg"}


def make_witness(vname, label, kind, f, observed, widx):
    return {"variant": vname, "build": build_spec(vname), "label": label, "mutation": kind,
            "msg_hex": f["msg"].hex(), "msg_len": len(f["msg"]), "args": _jsonable_fields(f),
            "payload_hex": gen.pack(label, f).hex(), "seed": common.seed(), "worker": widx,
            "expected": EXPECTED, "observed": observed}


def _violation(part, key, vname, label, kind, f, observed, widx):
    part_count(part, "viol." + key)
    best = part["best"].get(key)
    if best is None or len(f["msg"]) < best[0]:
        part["best"][key] = (len(f["msg"]), make_witness(vname, label, kind, f, observed, widx))
    modes = part["modes"].setdefault(key, set())
    modes.add(label)


def evaluate(part, vname, exe, label, kind, f, payload, r, widx, rerun_hang=True):
    """Returns the outcome string (also the key for crashes)."""
    part["evaluations"] += 1
    part_count(part, "cases." + label)
    if isinstance(r, Crash):
        if r.kind == "hang" and rerun_hang and ("hang:" + label) not in part["_hang_confirmed"]:
            r2 = run_cases(exe, [payload])[0]
            if isinstance(r2, Crash) and r2.kind == "hang":
                part["_hang_confirmed"].add("hang:" + label)
            if not (isinstance(r2, Crash) and r2.kind == "hang"):
                part["observations"]["hang-not-reproduced:" + label] = part["observations"].get("hang-not-reproduced:" + label, 0) + 1
                part["evaluations"] -= 1
                part_count(part, "cases." + label, -1)
                return evaluate(part, vname, exe, label, kind, f, payload, r2, widx, False)
        if r.kind == "exit":
            part["inconclusive"].append("driver exited rc=%s on %s/%s: %s" % (r.returncode, label, kind, (r.report or "")[-200:]))
            return "exit"
        key, gating, frames = crash_key_ex(r, label)
        if gating:
            _violation(part, key, vname, label, kind, f, observed_text(r, frames), widx)
        else:
            part["observations"][key] = part["observations"].get(key, 0) + 1
        return "crash:" + key
    try:
        o = parse_obs(r)
    except Exception:
        part["inconclusive"].append("unparsable observation for %s/%s" % (label, kind))
        return "bad-obs"
    for i, name in enumerate(VALIDATORS):
        if o["seen"] & (1 << i):
            part_count(part, "validator.%s.%s" % (name, "accepted" if (o["accept"] & (1 << i)) else "rejected"))
    if o["acc"]:
        part_count(part, "accessor_calls." + label, o["acc"])
    for name, detail in o["fails"]:
        _violation(part, "span:" + name, vname, label, kind, f, "span check failed: %s (%s)" % (name, detail), widx)
    if o["fails"]:
        return "span:" + o["fails"][0][0]
    return "%x/%s" % (o["accept"], o["rcs"][:4].hex())


def _layout_dependent(r, f):
    """True when an ASan report is not about a block this case allocated itself (the message or
    one of its exact-size argument/output buffers): a wild or far access whose classification
    depends on what happens to lie there in the long-lived --fork process."""
    t = r.report or ""
    if r.kind != "asan":
        return False
    if "SEGV on unknown address" in t or "heap-use-after-free" in t:
        return True
    m = re.search(r"is located (\d+) bytes (?:to the (?:left|right) of|before|after|inside of) (\d+)-byte region", t)
    if not m:
        return False
    own = set()
    for v in f.values():
        n = len(v) if isinstance(v, (bytes, bytearray)) else (v if isinstance(v, int) else None)
        if n is not None:
            own.update((n, n + 1, max(n, 1)))
    own.update((64, 128))  # sdp field arrays (8 pointers / sizes)
    return int(m.group(1)) > 64 or int(m.group(2)) not in own


def run_chunk(part, builds, cases, widx):
    payloads = [gen.pack(label, f) for label, _k, f in cases]
    part_count(part, "packets", len(cases))
    for vname, exe in builds:
        # a hang-type defect costs a CPU second per case: once this worker has confirmed enough
        # hangs at that budget, later chunks use a 100 ms alarm (keys are already established)
        short = part["_hangs"] >= HANGS_BEFORE_SHORT_ALARM
        res = run_cases(exe, payloads, alarm_ms=100 if short else None)
        for (label, kind, f), payload, r in zip(cases, payloads, res):
            if isinstance(r, Crash) and _layout_dependent(r, f):
                # where a wild or far access lands (red zone, neighbouring/freed block, unmapped page)
                # depends on the heap layout of the long-lived --fork process; judge the case in a
                # fresh process (as replay does) so that the key is reproducible
                r2 = common.run_cases(exe, [payload], env_extra=ENV_PLAIN)[0]
                if isinstance(r2, Crash) and r2.kind in ("asan", "ubsan"):
                    r = r2
            if isinstance(r, Crash) and r.kind == "hang":
                part["_hangs"] += 1
                if short and ("hang:" + label) not in part["_hang_confirmed"]:
                    r = run_cases(exe, [payload])[0]  # unseen hang key: judge it at the full budget
            out = evaluate(part, vname, exe, label, kind, f, payload, r, widx)
            part["classes"].add((label, kind, out))
            if widx == 0 and len(part["samples"]) < 12 and label not in part["_sampled"] and kind not in ("valid", "trunc"):
                part["_sampled"].add(label)
                part["samples"].append({"parser": label, "mutation": kind, "msg_hex": f["msg"][:160].hex(),
                                        "msg_len": len(f["msg"]), "variant": vname, "outcome": out})


def _new_part():
    part = new_part()
    part["best"] = {}
    part["modes"] = {}
    part["_sampled"] = set()
    part["_hang_confirmed"] = set()
    part["_hangs"] = 0
    return part


def _strip(part):
    for k in ("_sampled", "_hang_confirmed", "_hangs"):
        part.pop(k, None)


def _worker(job):
    widx, quota, builds = job
    rng = Rng(PROP, common.seed(), "gen", widx)
    part = _new_part()
    buf = []
    n = 0
    first = True
    while n < quota:
        for case in gen.round_cases(rng, first and widx == 0):
            buf.append(case)
            n += 1
            if len(buf) >= CHUNK:
                run_chunk(part, builds, buf, widx)
                buf = []
            if n >= quota:
                break
        first = False
    if buf:
        run_chunk(part, builds, buf, widx)
    _strip(part)
    return part


# ---------------------------------------------------------------------------
# witness minimisation (ddmin over the message bytes, same key must reproduce)
# ---------------------------------------------------------------------------
def _case_key(exe, label, f):
    r = run_cases(exe, [gen.pack(label, f)])[0]
    return _result_key(r, label)


def _result_key(r, label):
    if isinstance(r, Crash):
        return crash_key(r, label)[0]
    try:
        o = parse_obs(r)
    except Exception:
        return None
    return ("span:" + o["fails"][0][0]) if o["fails"] else None


def _fields_from_witness(w):
    f = {"msg": bytes.fromhex(w["msg_hex"])}
    for k, v in w["args"].items():
        f[k] = bytes.fromhex(v) if isinstance(v, str) else v
    return f


def _minimize_job(job):
    key, w, exe, budget = job
    label = w["label"]
    f = _fields_from_witness(w)
    best = f["msg"]
    size = max(len(best) // 2, 1)
    while size >= 1 and budget > 0 and len(best) > 1:
        cands = []
        i = 0
        while i < len(best):
            c = best[:i] + best[i + size:]
            cands.append(c)
            i += size
        cands = cands[:budget]
        budget -= len(cands)
        res = run_cases(exe, [gen.pack(label, dict(f, msg=c)) for c in cands])
        hit = None
        for c, r in zip(cands, res):
            if _result_key(r, label) == key:
                hit = c
                break
        if hit is not None:
            best = hit
            size = min(size, max(len(best) // 2, 1))
        else:
            size //= 2
    if len(best) < len(f["msg"]):
        f2 = dict(f, msg=best)
        r = run_cases(exe, [gen.pack(label, f2)])[0]
        if _result_key(r, label) == key:
            obs = observed_text(r, crash_key_ex(r, label)[2]) if isinstance(r, Crash) else w["observed"]
            w = dict(w, msg_hex=best.hex(), msg_len=len(best), payload_hex=gen.pack(label, f2).hex(),
                     observed=obs, minimized_from=len(f["msg"]))
    return key, w


# ---------------------------------------------------------------------------
# libFuzzer stage (thorough)
# ---------------------------------------------------------------------------
def _fuzz_job(job):
    g, runs, builds = job
    part = _new_part()
    gname = FUZZ_GROUPS[g]
    try:
        fexe = common.build(name="c13_fuzz_g%d" % g, sources=[DRIVER], san="asu", cc="clang",
                            flags=["-fsanitize=fuzzer", "-DC13_FUZZ=%d" % g], repo_sources=list(REPO_SOURCES))
    except common.BuildError as e:
        part["counters"]["fuzz.%s.not_selectable" % gname] = 1
        part["inconclusive"].append("libFuzzer harness does not build: %s" % e)
        _strip(part)
        return part
    base = os.path.join(common.BUILD_DIR, "c13_fuzz", "seed%d" % common.seed(), gname)
    shutil.rmtree(base, ignore_errors=True)
    corpus = os.path.join(base, "corpus")
    arts = os.path.join(base, "artifacts")
    os.makedirs(corpus)
    os.makedirs(arts)
    rng = Rng(PROP, common.seed(), "fuzzseed", g)
    for i, s in enumerate(gen.seeds_for_fuzz(rng, g, 200)):
        with open(os.path.join(corpus, "seed%04d" % i), "wb") as fh:
            fh.write(s)
    cmd = [fexe, corpus, "-runs=%d" % runs, "-max_len=2048", "-seed=%d" % (common.seed() * 16 + g + 1),
           "-artifact_prefix=" + arts + "/", "-fork=3", "-ignore_crashes=1", "-ignore_timeouts=1", "-ignore_ooms=1",
           "-timeout=10", "-rss_limit_mb=2048", "-print_final_stats=1"]
    try:
        p = subprocess.run(cmd, stdout=subprocess.PIPE, stderr=subprocess.STDOUT, env=common.run_env(),
                           timeout=1500, cwd=base)
        log = p.stdout.decode("utf-8", "replace")
    except subprocess.TimeoutExpired as e:
        log = (e.stdout or b"").decode("utf-8", "replace") + "\nVERIF wall watchdog"
        part["inconclusive"].append("libFuzzer session %s hit the wall watchdog" % gname)
    m = re.findall(r"fuzzed for (\d+) iterations", log)
    m2 = re.findall(r"#(\d+): cov: (\d+) ft: (\d+) corp: (\d+)", log)
    part["counters"]["fuzz.%s.runs_requested" % gname] = runs
    if m2:
        part["counters"]["fuzz.%s.execs" % gname] = int(m2[-1][0])
        part["counters"]["fuzz.%s.cov" % gname] = int(m2[-1][1])
        part["counters"]["fuzz.%s.corpus" % gname] = int(m2[-1][3])
    elif m:
        part["counters"]["fuzz.%s.execs" % gname] = int(m[-1])
    else:
        part["inconclusive"].append("libFuzzer session %s produced no statistics: %s" % (gname, log[-300:]))
    # triage: artifacts and the grown corpus go through the normal driver
    inputs = []
    for d, kind in ((arts, "fuzz-artifact"), (corpus, "fuzz-corpus")):
        for fn in sorted(os.listdir(d)):
            pth = os.path.join(d, fn)
            if os.path.isfile(pth) and not fn.startswith("seed"):
                with open(pth, "rb") as fh:
                    inputs.append(("fuzz." + gname, kind, {"msg": fh.read(), "group": g}))
    part["counters"]["fuzz.%s.artifacts" % gname] = sum(1 for x in inputs if x[1] == "fuzz-artifact")
    for i in range(0, len(inputs), CHUNK):
        run_chunk(part, builds, inputs[i:i + CHUNK], 100 + g)
    shutil.rmtree(corpus, ignore_errors=True)
    _strip(part)
    return part


# ---------------------------------------------------------------------------
def run(tier):
    report = Report(PROP, tier, "exploration")
    report.rule = (
        "cases = (parser/calling mode, mutation kind, message) from verif/gen_c13.py: structure-aware valid "
        "DNS/RADIUS/DHCPv4/HTTP/SDP/SAP/RTP/MPEG-TS messages, every single-field mutation of each (truncation at "
        "every byte, length fields remaining+-1/0/max, compression pointers self/forward/header/mutual, counts != "
        "content, delimiter as last byte, numeric extremes), random strings and byte flips; each case runs in an "
        "exact-size heap block under ASan+UBSan with a 1 s CPU-time alarm and driver-side span checks of every "
        "out-parameter. A behaviour class is the distinct triple (parser/mode, mutation kind, outcome) where "
        "outcome = accepted-validator mask + first return codes, or the violation key; valid and mutated, accepted "
        "and rejected packets are all non-trivial inputs to the parser they target.")
    report.assumptions = [
        "size-less accessors are called only after the validator accepted the packet, in the order of dns_resolv.c, "
        "radius_client.c/http_server_auth.c, http_server.c, sap_rcvr.c",
        "(buf,size) functions are called directly with the true size of an exact-size heap block",
        "mpeg2_ts_pkt_get_next is called with off <= buf_size and one of the four TS packet sizes",
        "ASan red zones do not see intra-object or far out-of-bounds accesses; span checks cover returned values only",
    ]
    specs = [(v, build_spec(v)) for v in VARIANTS]
    exes = common.try_builds(report, specs)
    if not exes:
        raise common.Inconclusive("no driver variant builds: %s" % report.builds)
    builds = sorted(exes.items())
    quota = int(os.environ.get("VERIF_C13_QUOTA", QUOTA[tier]))
    per = max(quota // NWORK, 1)
    import time
    t0 = time.time()
    parts = list(common.parallel(_worker, [(w, per, builds) for w in range(NWORK)]))
    report.extra["phase_s.generated_cases"] = round(time.time() - t0, 1)
    runs = int(os.environ.get("VERIF_C13_FUZZ_RUNS", FUZZ_RUNS[tier]))
    if runs > 0:
        parts += list(common.parallel(_fuzz_job, [(g, runs, builds) for g in range(len(FUZZ_GROUPS))]))

    if runs > 0:
        for gname in FUZZ_GROUPS:
            bad = any(p["counters"].get("fuzz.%s.not_selectable" % gname) for p in parts)
            report.builds["clang-O1-asu-libfuzzer-" + gname] = "not_selectable" if bad else "ok"
    best = {}
    modes = {}
    for part in parts:
        for key, (sz, w) in part.pop("best").items():
            if key not in best or sz < best[key][0]:
                best[key] = (sz, w)
        for key, ms in part.pop("modes").items():
            modes.setdefault(key, set()).update(ms)
        report.merge(part)
    exe_of = dict(builds)
    budget = 150 if tier == "quick" else 500
    jobs = [(key, w, exe_of[w["variant"]], budget) for key, (sz, w) in sorted(best.items())
            if not key.startswith("hang:")]
    t0 = time.time()
    minimized = dict(common.parallel(_minimize_job, jobs)) if jobs else {}
    report.extra["phase_s.minimise_witnesses"] = round(time.time() - t0, 1)
    # Every reported key must reproduce in a fresh process through the plain case protocol
    # (what --replay does).  A report whose classification depended on the heap layout of the
    # long-lived --fork process is re-keyed to what the fresh process shows.
    final = {}
    counts = {}
    for key, (sz, w) in sorted(best.items()):
        w = minimized.get(key, w)
        n = report.extra.pop("viol." + key, 1)
        fkey = key
        if not key.startswith("hang:"):
            r = common.run_cases(exe_of[w["variant"]], [bytes.fromhex(w["payload_hex"])], env_extra=ENV_PLAIN)[0]
            got = _result_key(r, w["label"])
            if got is not None and got != key:
                fkey = got
                w = dict(w, first_seen_as=key,
                         observed=observed_text(r, crash_key_ex(r, w["label"])[2]) if isinstance(r, Crash) else w["observed"])
                modes.setdefault(fkey, set()).update(modes.get(key, ()))
            elif got is None:
                w = dict(w, fresh_process="no report in a fresh process; seen only in the long-lived --fork driver")
        counts[fkey] = counts.get(fkey, 0) + n
        if fkey not in final or (fkey == key and "first_seen_as" in final[fkey]) or \
                (w["msg_len"] < final[fkey]["msg_len"] and ("first_seen_as" in final[fkey]) == ("first_seen_as" in w)):
            final[fkey] = w
    for key, w in sorted(final.items()):
        w["calling_modes_seen"] = sorted(modes.get(key, ()))
        report.violation(key, w)
        report.violations[key]["count"] = counts[key]
    report.extra["violation_modes"] = {k: sorted(v) for k, v in modes.items() if k in final}

    # essential monitors must have seen something
    for name in VALIDATORS:
        acc = report.extra.get("validator.%s.accepted" % name, 0)
        rej = report.extra.get("validator.%s.rejected" % name, 0)
        if acc == 0:
            report.inconclusive.append("validator %s never accepted a packet (accepted=0 rejected=%d): its "
                                       "accessors were not exercised" % (name, rej))
        if rej == 0:
            report.inconclusive.append("validator %s never rejected a packet" % name)
    for label in SEQ_LABELS:
        if report.extra.get("accessor_calls." + label, 0) == 0:
            report.inconclusive.append("no accessor call was reached in calling mode %s" % label)
    for label in gen.OP:
        if label != "fuzz" and report.extra.get("cases." + label, 0) == 0:
            report.inconclusive.append("no case executed for %s" % label)
    return report.finish()


def replay(path):
    with open(path) as fh:
        rec = json.load(fh)
    w = rec["witness"]
    spec = w["build"]
    exe = common.build(**spec)
    payload = bytes.fromhex(w["payload_hex"])
    r = common.run_cases(exe, [payload])[0]
    label = w["label"]
    print("property=%s key=%s variant=%s parser=%s mutation=%s" % (PROP, rec["key"], w["variant"], label, w["mutation"]))
    print("message (%d bytes): %s" % (w["msg_len"], w["msg_hex"]))
    print("args: %s" % json.dumps(w["args"]))
    print("expected: %s" % w["expected"])
    got = _result_key(r, label)
    if isinstance(r, Crash):
        print("observed: %s rc=%s\n%s" % (r.kind, r.returncode, (r.report or "")[:4000]))
    else:
        o = parse_obs(r)
        print("observed: seen=%#x accepted=%#x rcs=%s span_failures=%s" % (o["seen"], o["accept"], o["rcs"].hex(), o["fails"]))
    if got == rec["key"]:
        print("REPRODUCED key=%s" % got)
        return 1
    print("NOT REPRODUCED (got %s)" % got)
    return 0
