"""C19 - ring-buffer readers see the written stream in order or are told what they lost.

Harness: a case is a HISTORY: writer steps (r_buf_wbuf_get with varying minimum, commit with
r_buf_wbuf_set with/without leading offset or r_buf_wbuf_set2, abandoned gets, forced wraps,
deliberately invalid commits) interleaved with 1-8 readers (r_buf_rpos_init at various depths,
r_buf_data_avail_size, r_buf_data_get with small/large requests and iovec arrays,
r_buf_rpos_inc by all / part / none of the returned bytes).  drivers/c19_ring.c executes one
step per protocol case on a persistent ring, stamps every block, range-checks every region
and decodes what readers were handed into (block, offset, length) runs; the byte-stream model
verif/oracles/ringmodel.py judges every reader call.
"""
import json
import re

from verif import common
from verif.common import W, R, Rng, Crash
from verif.oracles.ringmodel import RingModel, SENTINEL

PROP = "C19"
REPO_SRC = ["src/utils/ring_buffer.c"]
DRIVER = ["c19_ring.c"]
U64 = (1 << 64) - 1
FULL_IOV = 0xFFFFFFFF
# clauses whose cause may be the round counter passing SIZE_MAX -> 0 (kept apart by a key suffix)
CTR_CLAUSES = ("silent-gap", "drop-under-report", "no-resync-within-2-rounds", "repetition", "resync-mid-block")
OPC = {"new": 0, "write": 1, "rinit": 2, "read": 3, "free": 4}


# ----------------------------------------------------------------------------
def encode_op(op):
    k = op["op"]
    w = W().u8(OPC[k])
    if k == "new":
        w.u64(op["size"]).u64(op["mbs"]).u8(1 if op.get("round0") is not None else 0).u64(op.get("round0") or 0)
    elif k == "write":
        w.u64(op["min"]).u64(op["want"]).u64(op.get("offs", 0)).u8(op.get("mode", 0)).u8(op.get("rd", 0))
    elif k == "rinit":
        w.u8(op["rd"]).u64(op["depth"])
    elif k == "read":
        w.u8(op["rd"]).u64(op["dsz"]).u32(op["icnt"]).u8(op.get("avail", 0)).u16(op.get("frac", 256)).u8(op.get("split", 0))
    return w.done()


def read_state(r):
    return {"round": r.u64(), "iov_index": r.u64(), "iov_index_max": r.u64(), "wpos": r.u64(), "flags": r.u32()}


def decode_obs(op, raw):
    r = R(raw)
    code = r.u8()
    if code == 0xFF:
        return {"skipped": True}
    k = op["op"]
    if code != OPC[k]:
        raise ValueError("observation of op %d for %s" % (code, k))
    o = {}
    if k == "new":
        o["ok"] = r.u8()
        if o["ok"]:
            o["size"] = r.u64()
            o["iov_count"] = r.u64()
            o["storage_ok"] = r.u8()
            o["fenced"] = r.u8()
    elif k == "write":
        o["avail"] = r.u64()
        o["ptr_off"] = r.i64()
        o["region_ok"] = r.u8()
        o["bsz"] = r.u64()
        o["offs"] = r.u64()
        o["rc"] = r.i32()
        o["id"] = r.u64()
        o["st"] = read_state(r)
    elif k == "rinit":
        o["rc"] = r.i32()
        o["rpos"] = (r.u64(), r.u64(), r.u64())
        o["st"] = read_state(r)
    elif k == "read":
        o["inited"] = r.u8()
        if o["inited"]:
            o["dround"] = r.u64()
            o["idxrel"] = r.u8()
            o["with_avail"] = r.u8()
            if o["with_avail"]:
                o["avail"] = r.u64()
                o["adrop"] = r.u64()
            o["n"] = r.u64()
            o["drop"] = r.u64()
            o["sret"] = r.u64()
            runs = []
            for _ in range(r.u32()):
                bid = r.u64()
                off = r.u64()
                ln = r.u64()
                cok = r.u8()
                k_ = r.u32()
                runs.append((bid, off, ln, cok, k_))
            o["runs"] = runs
            o["allok"] = r.u8()
            o["total"] = r.u64()
            o["inc"] = r.u64()
    return o


# ----------------------------------------------------------------------------
# judging a history
# ----------------------------------------------------------------------------
def features(m, ctr_wrapped):
    return ("var" if m.varying else "eq") + ":" + ("frag" if m.frag else "nofrag") + (":ctrwrap" if ctr_wrapped else "")


def lagclass(o):
    d = o["dround"]
    if d == 0:
        return "lag0-" + ("ahead" if o["idxrel"] == 2 else "athead" if o["idxrel"] == 1 else "behind")
    if d == 1:
        return "lag1-" + ("inrange" if o["idxrel"] == 2 else "lapped")
    if d > (1 << 63):
        return "lag-negative"
    return "lag2+"


def geoclass(new_op, m):
    nb = new_op["size"] // max(new_op["mbs"], 1)
    g = "blk<=8" if nb <= 8 else "blk<=64" if nb <= 64 else "blk<=1k" if nb <= 1024 else "blk>1k"
    if new_op["size"] >= (1 << 20):
        g += "-1MiB"
    return g + ":" + features(m, False)


def judge_history(ops, results, classes=None, counters=None):
    """-> list of (key, op index, expected, observed), first occurrence of every key.  Reader-clause
    violations do not stop the walk (the model re-synchronises the reader); range/writer
    violations and crashes do."""
    viol = []
    seen_keys = set()
    unreported_resync = set()
    m = None
    new_op = None
    round0 = None
    ctr_wrapped = False
    last_round = None

    def cls(*c):
        if classes is not None:
            classes.add(c)

    def cnt(name, n=1):
        if counters is not None:
            counters[name] = counters.get(name, 0) + n

    for i, op in enumerate(ops):
        res = results[i] if i < len(results) else None
        if res is None:
            break
        if isinstance(res, Crash):
            viol.append(("CRASH", i, None, res))
            break
        try:
            o = decode_obs(op, res)
        except Exception as e:
            viol.append(("HARNESS", i, None, "bad observation: %r" % (e,)))
            break
        if o.get("skipped"):
            break
        k = op["op"]
        cnt("op_" + k)
        if k == "new":
            if not o["ok"]:
                viol.append(("HARNESS", i, None, "r_buf_alloc failed for %r" % (op,)))
                break
            if not o["storage_ok"]:
                viol.append(("bounds:r_buf_alloc:storage-fields-inconsistent", i, "buf_max == buf + size", o))
                break
            if o["fenced"] != 2:
                viol.append(("HARNESS", i, None, "mapping fence not around both ring mappings (%d)" % o["fenced"]))
                break
            cnt("rings_with_guard_pages")
            m = RingModel(o["size"], op["mbs"])
            new_op = op
            round0 = op.get("round0")
            last_round = round0
            continue
        if m is None:
            break
        if k == "free":
            m = None
            continue
        feats = features(m, ctr_wrapped)
        if k == "write":
            st = o["st"]
            if round0 is not None and st["round"] < round0:
                ctr_wrapped = True
            mode = op.get("mode", 0)
            if o["avail"] == 0:
                if op["min"] <= m.size:
                    viol.append(("model:r_buf_wbuf_get:refused", i, "a region of >= %d bytes" % op["min"], o))
                    break
                cls(geoclass(new_op, m), "writer", "get-refused-min>size")
                continue
            if not o["region_ok"]:
                viol.append(("bounds:r_buf_wbuf_get:region-outside-ring", i, "region inside [buf, buf+size)", o))
                break
            if o["avail"] < max(op["min"], m.min_block) or o["avail"] > m.size:
                viol.append(("model:r_buf_wbuf_get:short-region", i,
                             ">= max(min %d, min_block %d)" % (op["min"], m.min_block), o))
                break
            if mode == 2:
                cls(geoclass(new_op, m), "writer", "get-abandoned")
                continue
            if mode == 4:
                if o["rc"] == 0:
                    viol.append(("model:r_buf_wbuf_set:invalid-commit-accepted", i, "EINVAL", o))
                    break
                cls(geoclass(new_op, m), "writer", "invalid-commit-refused")
                continue
            if o["rc"] != 0 or o["id"] == 0:
                viol.append(("model:%s:valid-commit-refused" % ("r_buf_wbuf_set" if mode == 0 else "r_buf_wbuf_set2"),
                             i, "rc 0", o))
                break
            dlen = o["bsz"] - o["offs"]
            wrapped = o["ptr_off"] == 0 and m.total > 0
            m.commit(o["id"], dlen, o["offs"] != 0)
            m.note_region_written(o["ptr_off"], o["ptr_off"] + o["bsz"], o["ptr_off"] + o["offs"], o["id"])
            cnt("bytes_written", dlen)
            if wrapped:
                cnt("ring_wraps")
            if mode == 3:
                m.reinit(op.get("rd", 0), m.cum[o["id"]])
            cls(geoclass(new_op, m), "writer",
                ("set2" if mode in (1, 3) else "set") + ("-offset" if o["offs"] else "") + ("-wrap" if wrapped else "") +
                ("-clipped" if o["bsz"] < op["want"] else "") + ("-minlt" if op["min"] < op["want"] else ""))
            continue
        if k == "rinit":
            if o["rc"] != 0:
                viol.append(("model:r_buf_rpos_init:rc", i, 0, o))
                break
            m.reinit(op["rd"])
            unreported_resync.discard(op["rd"])
            dcls = "d0" if op["depth"] == 0 else "d<ring" if op["depth"] < m.size else "d=ring" if op["depth"] == m.size else "d>ring"
            cls(geoclass(new_op, m), "rinit", dcls)
            continue
        if k == "read":
            if not o["inited"]:
                continue
            full = op["dsz"] >= 2 * m.size and op["icnt"] == FULL_IOV
            lag = lagclass(o)
            if not o["allok"]:
                viol.append(("bounds:r_buf_data_get:iovec-outside-ring:%s" % lag.split("-")[0], i,
                             "every iovec inside [buf, buf+size) and count <= iov_cnt",
                             {"ret": o["n"], "iov_cnt": op["icnt"]}))
                break
            drop_now = 0 if o["drop"] == SENTINEL else o["drop"]
            adrop_now = o.get("adrop") if o["with_avail"] else 0
            if lag == "lag2+" and o["total"] == 0 and not drop_now and adrop_now in (0, None, SENTINEL):
                unreported_resync.add(op["rd"])
            elif o["total"] > 0 and not o["runs"] == []:
                pass
            rd_before = m.reader(op["rd"])
            had_drop_before = rd_before.drop_calls > 0
            runs = [(a, b, c, d) for (a, b, c, d, _) in o["runs"]]
            v, delivered = m.judge_read(op["rd"], runs, o["drop"], o["sret"], o["total"], o["inc"], full,
                                        avail=o.get("avail") if o["with_avail"] else None,
                                        avail_drop=o.get("adrop") if o["with_avail"] else None)
            drop = 0 if o["drop"] == SENTINEL else o["drop"]
            if delivered:
                ev = "data-after-drop" if had_drop_before else "data"
                if o["inc"] < delivered:
                    ev += "-partial-inc" if o["inc"] else "-peek"
            elif drop or (o["with_avail"] and o.get("adrop") not in (None, SENTINEL, 0)):
                ev = "drop-report"
            else:
                ev = "empty"
            reqcls = "full" if full else "small-req" if op["dsz"] < max(m.maxblock, 1) else "mid-req"
            if v:
                for clause, exp, obs in v:
                    fn = "r_buf_data_avail_size" if clause.startswith("avail") else "r_buf_data_get"
                    key = "model:%s:%s:%s" % (fn, clause, lag.split("-")[0])
                    if clause == "silent-gap" and op["rd"] in unreported_resync:
                        # an earlier call on this reader, made two or more rounds behind, returned
                        # nothing and reported drop 0: the skip itself was never reported
                        key = "model:%s:%s:unreported-resync" % (fn, clause)
                    if key in seen_keys:
                        continue
                    seen_keys.add(key)
                    obs = dict(obs)
                    obs.update({"reader": op["rd"], "lag": lag, "ring_features": feats, "drop_reported_this_call": drop,
                                "data_size_ret": None if o["sret"] == SENTINEL else o["sret"],
                                "iovecs": o["n"], "runs": [list(x[:3]) for x in runs[:6]]})
                    viol.append((key, i, exp, obs))
                    cls(geoclass(new_op, m), lag, clause)
                continue
            if delivered:
                unreported_resync.discard(op["rd"])
            cls(geoclass(new_op, m), lag, ev, reqcls)
            cnt("reader_calls")
            if full and o["with_avail"]:
                cnt("avail_vs_full_read_checks")
            if full and m.reader(op["rd"]).stuck_w is not None:
                cnt("polls_inside_drop_episode")
            cnt("bytes_delivered", delivered)
            if ev == "drop-report":
                cnt("drop_reports")
            continue
    return viol


# ----------------------------------------------------------------------------
# history generation
# ----------------------------------------------------------------------------
def gen_history(rng, tier, big=False, tiny=False):
    mbs = rng.choice([1, 2, 7, 8, 64, 188, 1316, 1500, rng.range(1, 1500), rng.range(1, 64)])
    nblk = rng.choice([4, 4, 5, 6, 8, 8, 12, 16, 32, 64, 200, 1000])
    if tiny:          # small geometry, short history: violations found here need little minimisation
        mbs = rng.choice([1, 1, 2, 3])
        nblk = rng.choice([4, 4, 5, 6, 8])
    bs = mbs * rng.choice([1, 1, 1, 2, 3]) + rng.choice([0, 0, 0, 1, 5])
    size = nblk * bs + rng.choice([0, 0, 0, 1, bs // 2, bs - 1, max(mbs - 1, 0)])
    if big:
        size = 1 << 20
        mbs = rng.choice([188, 1316, 1500, 64])
        bs = mbs * rng.choice([1, 1, 7])
    while size > (1 << 20):
        size //= 2
    size = max(size, 4 * bs)
    nblk = size // bs
    mode = rng.choice(["equal", "equal", "varying", "varying", "minfill"])
    use_offset = rng.chance(1, 3)
    if not big and not tiny and rng.chance(1, 8):
        # the densest packing the ring allows: every round is filled to its last byte with minimum-size blocks and the
        # number of blocks per round is a multiple of 256 (the block table then ends exactly on a page boundary)
        mbs, nblk = rng.choice([(8, 256), (1, 256), (16, 256), (4, 512), (2, 256)])
        bs = mbs
        size = nblk * bs
        mode = "equal"
        use_offset = False
    use_set2 = rng.chance(1, 4)
    round0 = (U64 - rng.range(0, 2)) if rng.chance(1, 4) else None
    maxb = max(bs, min(size // 3, 6 * bs))
    max_steps = 4000 if tier == "quick" else 40000
    rounds = rng.choice([3, 5, 8, 12])
    steps = min(max_steps, max(60, rounds * nblk))
    nreaders = rng.choice([1, 1, 2, 2, 3, 4, 6, 8])
    if tiny:
        steps = rng.range(12, 60)
        nreaders = rng.choice([1, 1, 2])
    kinds = ["fast", "slow", "lazy", "partial", "small", "stalker", "peeker"]
    readers = []
    for r in range(nreaders):
        kind = rng.choice(kinds)
        readers.append({"kind": kind, "awake": True, "phase_left": 0,
                        "p": {"fast": 1.0, "slow": 0.25, "lazy": 1.0, "partial": 0.7, "small": 0.8, "stalker": 1.0,
                              "peeker": 0.5}[kind]})
    ops = [{"op": "new", "size": size, "mbs": mbs, "round0": round0}]
    # a few blocks first, then readers attach at various depths
    def wstep():
        x = rng.below(100)
        op = {"op": "write", "mode": 0, "offs": 0}
        if mode == "equal":
            want = bs
        else:
            want = rng.choice([mbs, bs, rng.range(mbs, maxb), rng.range(mbs, maxb), maxb])
        op["want"] = want
        op["min"] = want
        if mode == "minfill" and rng.chance(1, 2):
            op["min"] = rng.choice([1, mbs, rng.range(1, want)])
            op["want"] = rng.choice([want, want, size])        # 'size' = take whatever the region offers
        if use_offset and rng.chance(1, 3):
            o_ = rng.choice([1, 4, 8, rng.range(1, 32)])
            op["offs"] = o_
            op["want"] = op["want"] + o_
            op["min"] = max(op["min"], op["want"]) if op["min"] == want else op["min"]
        if use_set2 and rng.chance(1, 3):
            op["mode"] = 1
        if x < 2:
            op = {"op": "write", "mode": 2, "min": rng.choice([1, mbs, want]), "want": want, "offs": 0}
        elif x < 4:
            op = {"op": "write", "mode": 4, "min": mbs, "want": rng.choice([max(mbs - 1, 0), mbs]), "offs": rng.choice([0, mbs, mbs + 3])}
            if op["want"] >= mbs and op["offs"] == 0:
                op["want"] = max(mbs - 1, 0)
            if op["want"] - op["offs"] >= mbs:
                op["offs"] = op["want"]
            if op["want"] == 0:
                op["offs"] = 0
        elif x < 5:
            op = {"op": "write", "mode": 2, "min": size + rng.range(1, 9), "want": 1, "offs": 0}
        elif x < 7 and op["mode"] == 0:
            op["min"] = max(op["min"], rng.range(size // 2, size))      # forced wrap
        return op

    def rstep(r, info):
        kind = info["kind"]
        op = {"op": "read", "rd": r, "dsz": 2 * size + 7, "icnt": FULL_IOV, "avail": 0, "frac": 256, "split": 0}
        if kind == "fast" or kind == "lazy":
            op["avail"] = 1 if rng.chance(1, 3) else 0
        elif kind == "slow":
            op["dsz"] = rng.choice([bs + 1, 2 * bs + 1, 3 * maxb, 2 * size + 7])
            op["icnt"] = rng.choice([1, 2, 4, 16, FULL_IOV])
        elif kind == "partial":
            op["frac"] = rng.choice([1, 64, 128, 200, 255, 256, rng.range(1, 255)])
            op["split"] = rng.below(2)
            op["avail"] = 1 if rng.chance(1, 4) else 0
        elif kind == "small":
            op["dsz"] = rng.choice([1, mbs, bs - 1 if bs > 1 else 1, bs, bs + 1, maxb, maxb + 1, 2 * size + 7])
            op["icnt"] = rng.choice([0, 1, 1, 2, 3, FULL_IOV])
        elif kind == "stalker":
            op["dsz"] = rng.choice([maxb + 1, maxb + 1, 2 * maxb + 1, 2 * size + 7])
            op["icnt"] = rng.choice([1, 4, FULL_IOV])
            if rng.chance(1, 3):
                op["dsz"], op["icnt"] = 2 * size + 7, FULL_IOV
                op["frac"] = max(1, min(256, (256 * maxb) // max(size, 1)))
        elif kind == "peeker":
            op["frac"] = rng.choice([0, 0, 256])
            op["avail"] = 1
        return op

    def rinit(r, first):
        info = readers[r]
        if info["kind"] == "stalker":
            depth = rng.choice([size, size, size - bs, size + bs, size - 1, size + 1])
        else:
            depth = rng.choice([0, 0, bs, 2 * bs, size // 2, size, size + bs, 2 * size, rng.range(0, 2 * size), U64 // 2])
        return {"op": "rinit", "rd": r, "depth": max(depth, 0)}

    attach_at = sorted(rng.range(0, max(1, min(steps // 3, 3 * nblk))) for _ in range(nreaders))
    attached = [False] * nreaders
    for s in range(steps):
        w = wstep()
        for r in range(nreaders):
            if not attached[r] and s >= attach_at[r]:
                attached[r] = True
                if use_set2 and w.get("mode") in (0, 1) and w["op"] == "write" and rng.chance(1, 3):
                    w["mode"] = 3
                    w["rd"] = r
                else:
                    ops.append(rinit(r, True))
        ops.append(w)
        for r in range(nreaders):
            info = readers[r]
            if not attached[r]:
                continue
            if info["kind"] == "lazy":
                if info["phase_left"] <= 0:
                    info["awake"] = not info["awake"]
                    info["phase_left"] = (rng.range(nblk // 2 + 1, nblk * 2 + 2) if info["awake"]
                                          else rng.range(nblk + 1, (5 * nblk) // 2 + 2))
                info["phase_left"] -= 1
                if not info["awake"]:
                    continue
            if rng.below(1000) < int(info["p"] * 1000):
                ops.append(rstep(r, info))
            if rng.chance(1, 400):
                ops.append(rinit(r, False))
    # final: every reader polls a few times with a full request
    for _ in range(2):
        for r in range(nreaders):
            if attached[r]:
                ops.append({"op": "read", "rd": r, "dsz": 2 * size + 7, "icnt": FULL_IOV, "avail": 1, "frac": 256, "split": 0})
    ops.append({"op": "free"})
    return ops


# Hand-written short histories (run in every tier by worker 0): the situations the design names.
def directed_histories():
    F = FULL_IOV
    rd = lambda r, dsz=1 << 20, icnt=F, frac=256, avail=0: {"op": "read", "rd": r, "dsz": dsz, "icnt": icnt,
                                                          "avail": avail, "frac": frac, "split": 0}
    wr = lambda want, mn=None, offs=0, mode=0: {"op": "write", "mode": mode, "offs": offs, "want": want,
                                               "min": want if mn is None else mn}
    out = []
    # empty ring, reader at the head, small request
    out.append([{"op": "new", "size": 64, "mbs": 8, "round0": None}, {"op": "rinit", "rd": 0, "depth": 0},
                rd(0, dsz=1, icnt=1), wr(8), rd(0, dsz=8, icnt=1), rd(0, dsz=9, icnt=1), {"op": "free"}])
    # never-written ring: available size against a full read
    out.append([{"op": "new", "size": 64, "mbs": 8, "round0": None}, {"op": "rinit", "rd": 0, "depth": 0},
                rd(0, avail=1), wr(8), rd(0, avail=1), {"op": "free"}])
    # previous round tail ends with a block larger than the rest of the request, new round starts small
    out.append([{"op": "new", "size": 16, "mbs": 1, "round0": None}, wr(3), wr(2), {"op": "rinit", "rd": 0, "depth": 1},
                wr(8), wr(1, mn=14), rd(0, dsz=6), {"op": "free"}])
    # equal blocks, reader exactly one round behind, polling while the writer laps it and goes on
    h = [{"op": "new", "size": 64, "mbs": 16, "round0": None}]
    h += [wr(16) for _ in range(4)] + [{"op": "rinit", "rd": 0, "depth": 64}]
    for _ in range(14):
        h += [wr(16), rd(0, frac=0, avail=1)]
    h += [rd(0), {"op": "free"}]
    out.append(h)
    # reader sleeps for more than two rounds, then polls (accounting of the reported drop)
    h = [{"op": "new", "size": 64, "mbs": 16, "round0": None}, wr(16), {"op": "rinit", "rd": 0, "depth": 16}, rd(0)]
    h += [wr(16) for _ in range(9)] + [rd(0), wr(16), rd(0), {"op": "free"}]
    out.append(h)
    # same across the round counter wrap
    h = [{"op": "new", "size": 64, "mbs": 16, "round0": U64 - 1}, wr(16), {"op": "rinit", "rd": 0, "depth": 16}, rd(0)]
    h += [wr(16) for _ in range(9)] + [rd(0), wr(16), rd(0), {"op": "free"}]
    out.append(h)
    # varying block sizes: a big block of the new round covers several old blocks
    h = [{"op": "new", "size": 64, "mbs": 4, "round0": None}] + [wr(8) for _ in range(7)]
    h += [{"op": "rinit", "rd": 0, "depth": 24}, wr(40, mn=40), rd(0), {"op": "free"}]
    out.append(h)
    # leading offsets shift the new round against the old block table
    h = [{"op": "new", "size": 64, "mbs": 8, "round0": None}] + [wr(8) for _ in range(8)]
    h += [{"op": "rinit", "rd": 0, "depth": 16}, wr(16, offs=8), wr(16, offs=8), wr(16, offs=8), rd(0), {"op": "free"}]
    out.append(h)
    # a reader that was legitimately resynchronised reads a stale table entry whose bytes happen to be the
    # newest block, then is handed the same block again
    out.append([{"op": "new", "size": 8, "mbs": 1, "round0": None}, wr(1), {"op": "rinit", "rd": 0, "depth": 16},
                wr(2), wr(1), wr(5, offs=4), wr(2, offs=1), wr(2), wr(2), rd(0, dsz=1, icnt=3), wr(1), wr(5, offs=4),
                rd(0, dsz=3, icnt=1), rd(0, dsz=2, icnt=3), {"op": "free"}])
    return out


# ----------------------------------------------------------------------------
# running
# ----------------------------------------------------------------------------
FENCE = ["-Wl,--wrap=mmap", "-Wl,--wrap=munmap"]   # guard pages around the library's mappings (driver)


def build_specs(tier):
    specs = [("asu-gcc", dict(name="c19_asu_gcc", sources=DRIVER, san="asu", cc="gcc", flags=FENCE, repo_sources=REPO_SRC))]
    if tier == "thorough":
        specs.append(("asu-clang", dict(name="c19_asu_clang", sources=DRIVER, san="asu", cc="clang", flags=FENCE, repo_sources=REPO_SRC)))
        specs.append(("vg-gcc", dict(name="c19_plain_gcc", sources=DRIVER, san="plain", cc="gcc", flags=["-O1", "-g"] + FENCE,
                                     repo_sources=REPO_SRC)))
    return specs


def run_vg(exe, cases):
    """One history in its own memcheck process.  memcheck reports do not stop the driver (the
    exit code 99 arrives after the last observation), so the exit status and stderr are looked
    at here: a report is turned into a Crash attributed to the last step of the history."""
    import subprocess
    data = b"".join(common.pack_case(c) for c in cases)
    try:
        p = subprocess.run(["/usr/bin/valgrind", "--error-exitcode=99", "-q", exe], input=data,
                           stdout=subprocess.PIPE, stderr=subprocess.PIPE, env=common.run_env(), timeout=3600)
        rc, out, err = p.returncode, p.stdout, p.stderr
    except subprocess.TimeoutExpired as e:
        rc, out, err = 97, e.stdout or b"", (e.stderr or b"") + b"\nVERIF-HANG wall watchdog"
    obs = common._parse_obs(out)
    text = err.decode("utf-8", "replace")
    res = list(obs[:len(cases)])
    if rc != 0 or re.search(r"==\d+== (Invalid|Conditional jump|Use of uninit|Syscall param|Process terminating)", text):
        crash = Crash("valgrind" if rc in (0, 99) else common.classify_crash(rc, text), text[-6000:], rc)
        if len(res) >= len(cases):
            res[len(cases) - 1] = crash
        else:
            res.append(crash)
    return res


def run_ops(exes, variant, ops):
    cases = [encode_op(o) for o in ops]
    if variant.startswith("vg-"):
        return run_vg(exes[variant], cases)
    return common.run_cases(exes[variant], cases)


def crash_key_for(crash, op, variant):
    entry = {"write": "r_buf_wbuf_get", "read": "r_buf_data_get", "rinit": "r_buf_rpos_init", "new": "r_buf_alloc",
             "free": "r_buf_free"}.get(op["op"], op["op"])
    if variant.startswith("vg-"):
        text = crash.report or ""
        kind = "error"
        mk = re.search(r"==\d+== (Invalid (?:read|write) of size \d+|Conditional jump[^\n]*|Use of uninitialised[^\n]*|"
                       r"Syscall param[^\n]*|Process terminating[^\n]*)", text)
        if mk:
            kind = re.sub(r"\d+", "N", mk.group(1)).strip().replace(" ", "_")[:50]
        fr = ""
        mf = re.search(r"(?:at|by) 0x[0-9A-F]+: (\w+) \(ring_buffer\.c", text)
        if mf:
            fr = mf.group(1)
        return ":".join(x for x in ("valgrind", entry, fr, kind) if x)
    return common.crash_key(crash, entry)


def evaluate(exes, variant, ops):
    res = run_ops(exes, variant, ops)
    out = []
    for key, idx, exp, obs in judge_history(ops, res):
        if key == "CRASH":
            out.append((crash_key_for(obs, ops[idx], variant), idx, "no sanitizer report / abnormal exit",
                        {"kind": obs.kind, "rc": obs.returncode, "report": (obs.report or "")[-3500:]}))
        elif key == "HARNESS":
            out.append(("harness:c19:" + str(obs)[:40], idx, exp, obs))
        else:
            out.append((key, idx, exp, obs))
    return out


def worker(job):
    exes, variant, widx, nhist, tier, bigs = job
    part = common.new_part()
    hists = []
    for j in range(nhist):
        r = Rng(PROP, common.seed(), variant, widx, j)
        hists.append(gen_history(r, tier, big=(j < bigs), tiny=(j % 4 == 3)))
    if widx == 0:
        hists += directed_histories()
    cases = []
    for ops in hists:
        cases += [encode_op(o) for o in ops]
    if variant.startswith("vg-"):
        results = []
        for ops in hists:          # one memcheck process per history (see run_vg)
            r = run_vg(exes[variant], [encode_op(o) for o in ops])
            results += r + [None] * (len(ops) - len(r))
        common.part_count(part, "valgrind_histories", len(hists))
    else:
        results = common.run_cases(exes[variant], cases)
    pos = 0
    for j, ops in enumerate(hists):
        res = results[pos:pos + len(ops)]
        pos += len(ops)
        part["evaluations"] += 1
        common.part_count(part, "steps", len(ops))
        classes = set()
        viol = judge_history(ops, res, classes, part["counters"])
        part["classes"].update(classes)
        for key, idx, exp, obs in viol:
            if key == "CRASH":
                key = crash_key_for(obs, ops[idx], variant)
                exp = "no sanitizer report / abnormal exit"
                obs = {"kind": obs.kind, "rc": obs.returncode, "report": (obs.report or "")[-3500:]}
            elif key == "HARNESS":
                part["inconclusive"].append("history %d/%d op %d: %s" % (widx, j, idx, obs))
                continue
            part["violations"].append((key, {"variant": variant, "worker": widx, "history_index": j,
                                             "failing_op_index": idx, "failing_op": ops[idx],
                                             "history": ops[:idx + 1], "expected": exp, "observed": obs,
                                             "minimised": False}))
        if j == 0 and widx < 4:
            part["samples"].append({"history_head": ops[:30], "steps_total": len(ops)})
    best = {}
    counts = {}
    for key, w in part["violations"]:
        counts[key] = counts.get(key, 0) + 1
        if key not in best or len(w["history"]) < len(best[key]["history"]):
            best[key] = w
    part["violations"] = []
    part["vbest"] = best
    part["vcounts"] = counts
    return part


# ----------------------------------------------------------------------------
# minimisation
# ----------------------------------------------------------------------------
def still_fails(exes, variant, ops, key):
    for v in evaluate(exes, variant, ops):
        if v[0] == key:
            return v
    return None


def minimise(exes, variant, ops, key, budget=600):
    best = still_fails(exes, variant, ops, key)
    if best is None:
        return ops, None
    cur = ops[:best[1] + 1]
    runs = 0
    n = 2
    while len(cur) > 2 and runs < budget:
        body = cur[1:]
        chunk = max(1, len(body) // n)
        reduced = False
        for start in range(0, len(body), chunk):
            cand = [cur[0]] + body[:start] + body[start + chunk:]
            if len(cand) < 2:
                continue
            runs += 1
            v = still_fails(exes, variant, cand, key)
            if v is not None:
                cur = cand[:v[1] + 1]
                best = v
                n = max(n - 1, 2)
                reduced = True
                break
            if runs >= budget:
                break
        if not reduced:
            if chunk == 1:
                break
            n = min(n * 2, len(body))
    # simplify reader calls: full request / no avail / full advance where that keeps the key
    for i in range(1, len(cur)):
        if runs >= budget:
            break
        op = cur[i]
        if op["op"] == "read":
            for field, val in (("avail", 0), ("split", 0), ("frac", 256)):
                if op.get(field) != val and i != len(cur) - 1:
                    trial = dict(op)
                    trial[field] = val
                    cand = cur[:i] + [trial] + cur[i + 1:]
                    runs += 1
                    v = still_fails(exes, variant, cand, key)
                    if v is not None and v[1] == best[1]:
                        cur, best, op = cand, v, trial
    return cur, best


def minimise_job(job):
    exes, key, w = job
    ops, v = minimise(exes, w["variant"], w["history"], key)
    w = dict(w)
    if v is None:
        w["minimise_note"] = "not reproduced standalone; unminimised history kept"
        w["history"] = w["history"][-400:]
        return key, w
    w.update({"history": ops, "failing_op_index": v[1], "failing_op": ops[v[1]], "expected": v[2], "observed": v[3],
              "minimised": True})
    if len(ops) <= 64:
        w["payload_hex"] = [encode_op(o).hex() for o in ops]
    return key, w


def clean_replays():
    import os
    d = os.path.join(common.REPLAY_DIR, PROP)
    if os.path.isdir(d):
        for f in os.listdir(d):
            if f.endswith(".json"):
                try:
                    os.unlink(os.path.join(d, f))
                except OSError:
                    pass


def run(tier):
    report = common.Report(PROP, tier)
    report.rule = (
        "A case is a history of 12-4000 (thorough: -40000) writer steps on one ring (size 4 blocks .. 1 MiB; every "
        "fourth history uses a tiny ring and <= 60 steps, "
        "min_block_size 1..1500, equal / varying / fill-to-end block sizes, leading offsets, wbuf_set2, abandoned gets, "
        "forced wraps, invalid commits, round counter pre-set at SIZE_MAX-{0,1,2} in a quarter of them) interleaved "
        "with 1-8 readers of kinds fast/slow/lazy (sleeps > 1 round)/partial-advance/small-request/stalker (about one "
        "round behind)/peeker.  evaluations = histories; every writer region and every reader call is judged (range "
        "check, byte-stream model clauses 1-5).  distinct_nontrivial = distinct classes (ring geometry class incl. "
        "equal/varying blocks and fragmentation, reader lag class measured at the call, event kind incl. request size "
        "class) observed.")
    report.assumptions = [
        "single-threaded use: a reader's r_buf_data_get and its r_buf_rpos_inc are not separated by a writer step",
        "readers advance by at most the bytes present in the returned iovecs",
        "a 'full' request is data_size >= 2*ring size with an iovec array of iov_count+2 entries",
        "the writer only touches the bytes it commits (region prefix), never the rest of the region handed out",
    ]
    clean_replays()
    exes = common.try_builds(report, build_specs(tier))
    if "asu-gcc" not in exes:
        raise common.Inconclusive("asu build failed: %s" % report.builds)
    nw = common.NCPU
    jobs = []
    per = (512 if tier == "quick" else 4096) // nw
    for w in range(nw):
        jobs.append((exes, "asu-gcc", w, per, tier, 1 if tier == "quick" and w < 2 else (2 if tier == "thorough" else 0)))
    if "asu-clang" in exes:
        for w in range(nw):
            jobs.append((exes, "asu-clang", w, per // 4, tier, 1))
    if "vg-gcc" in exes:
        for w in range(nw):
            jobs.append((exes, "vg-gcc", w, 6, "quick", 0))
    best = {}
    counts = {}
    for part in common.parallel(worker, jobs):
        report.merge(part)
        for k, n in part["vcounts"].items():
            counts[k] = counts.get(k, 0) + n
        for k, w in part["vbest"].items():
            if k not in best or len(w["history"]) < len(best[k]["history"]):
                best[k] = w
    mjobs = [(exes, k, w) for k, w in sorted(best.items())]
    for key, w in common.parallel(minimise_job, mjobs):
        w["seed"] = common.seed()
        w["build"] = {"driver": DRIVER, "repo_sources": REPO_SRC, "variant": w["variant"]}
        report.violations[key] = {"count": counts[key], "witness": w}
    if report.extra.get("reader_calls", 0) == 0 or report.extra.get("ring_wraps", 0) == 0 or \
            report.extra.get("bytes_delivered", 0) == 0:
        report.inconclusive.append("essential monitor saw nothing: %r" % {k: report.extra.get(k) for k in (
            "reader_calls", "ring_wraps", "bytes_delivered")})
    return report.finish()


def replay(path):
    with open(path) as fh:
        rec = json.load(fh)
    w = rec["witness"]
    report = common.Report(PROP, "quick")
    exes = common.try_builds(report, build_specs("thorough"))
    var = w.get("variant", "asu-gcc")
    if var not in exes:
        print("INCONCLUSIVE property=%s variant %s does not build" % (PROP, var))
        return 2
    ops = w["history"]
    print("replaying %d steps in %s" % (len(ops), var))
    res = run_ops(exes, var, ops)
    for i, op in enumerate(ops):
        line = "  %3d %s" % (i, json.dumps(op))
        if i < len(res) and not isinstance(res[i], Crash):
            try:
                o = decode_obs(op, res[i])
                if op["op"] == "write":
                    line += "  -> avail=%d at=%d commit=%d+%d rc=%d block=%d round=%d idx=%d" % (
                        o["avail"], o["ptr_off"], o["offs"], o["bsz"] - o["offs"], o["rc"], o["id"],
                        o["st"]["round"], o["st"]["iov_index"])
                elif op["op"] == "read" and o.get("inited"):
                    line += "  -> iovecs=%d drop=%s size_ret=%s runs=%s inc=%d" % (
                        o["n"], "-" if o["drop"] == SENTINEL else o["drop"], "-" if o["sret"] == SENTINEL else o["sret"],
                        [list(x[:3]) for x in o["runs"][:5]], o["inc"])
                elif op["op"] == "rinit":
                    line += "  -> rpos(idx,off,round)=%s" % (o["rpos"],)
            except Exception:
                pass
        print(line)
    viol = evaluate(exes, var, ops)
    hit = False
    for v in viol:
        print("violation key=%s at step %d\n  expected: %s\n  observed: %s" % (
            v[0], v[1], json.dumps(v[2], default=str)[:600], json.dumps(v[3], default=str)[:3000]))
        hit = hit or v[0] == rec["key"]
    if hit:
        print("REPRODUCED key=%s" % rec["key"])
        return 1
    print("not reproduced (key %s)" % rec["key"])
    return 0
