"""C15 - DNS and RADIUS messages built by the library parse back and authenticate per RFC.

Driver: drivers/c15_proto.c (includes include/proto/dns.h, include/proto/radius.h).
Oracles: verif/oracles/dnsref.py (RFC 1035 / 6891), verif/oracles/radiusref.py
(RFC 2865 / 2866 / 2869 / 3579 / 5176 / 5997, hashlib.md5 + hmac).

Every case is described by a JSON-able `params` dict from which both the driver payload
and the oracle's expectation are derived, so a witness replays from its params alone.
"""
import json
import struct

from verif import common
from verif.common import W, R, Rng, Crash
from verif.oracles import dnsref, radiusref as rr

PROP = "C15"
DRIVER = "c15_proto.c"
ENTRY = {1: "dns_build", 2: "dns_name", 3: "rad_build", 4: "rad_verify", 5: "rad_pw"}
OPNUM = {"dns_build": 1, "dns_name": 2, "rad_build": 3, "rad_verify": 4, "rad_pw": 5}
NOSIZE = (1 << 64) - 1

LDH = b"abcdefghijklmnopqrstuvwxyzABCDEFGHIJKLMNOPQRSTUVWXYZ0123456789-_"
ALNUM = b"abcdefghijklmnopqrstuvwxyzABCDEFGHIJKLMNOPQRSTUVWXYZ0123456789"


def hx(b):
    return bytes(b).hex()


def unhx(s):
    return bytes.fromhex(s)


# ----------------------------------------------------------------------------
# name generator (host-name grammar: labels of letters/digits/hyphen/underscore,
# first and last character alphanumeric)
# ----------------------------------------------------------------------------
def gen_label(rng, n):
    if n <= 0:
        return b""
    if n == 1:
        return bytes([rng.choice(ALNUM)])
    return bytes([rng.choice(ALNUM)]) + bytes(rng.choice(LDH) for _ in range(n - 2)) + bytes([rng.choice(ALNUM)])


def gen_name_total(rng, total):
    """name of exactly `total` octets whose labels are all 1..63 octets (valid iff total <= 253)"""
    lens = []
    left = total
    while left > 0:
        n = rng.range(1, min(63, left))
        if left - n == 1:          # would leave a dot with nothing after it
            continue
        lens.append(n)
        left -= n
        if left > 0:
            left -= 1
    return b".".join(gen_label(rng, n) for n in lens)


NAME_CLASSES = (
    ("simple", 40), ("single", 6), ("label63", 8), ("max253", 7), ("many1", 4), ("len252", 3), ("mid", 8),
    ("label64", 4), ("emptylabel", 3), ("leadingdot", 2), ("trailingdot", 5), ("overlong254", 3),
    ("overlong", 2), ("root", 3),
)
GATING_VALID = ("simple", "single", "label63", "max253", "many1", "len252", "mid")
MUST_REFUSE = ("label64", "emptylabel", "leadingdot")


def pick_weighted(rng, table):
    tot = sum(w for _, w in table)
    x = rng.below(tot)
    for k, w in table:
        if x < w:
            return k
        x -= w
    return table[-1][0]


def gen_name(rng, cls=None):
    cls = cls or pick_weighted(rng, NAME_CLASSES)
    if cls == "simple":
        n = rng.range(1, 4)
        name = b".".join(gen_label(rng, rng.range(1, 12)) for _ in range(n))
    elif cls == "single":
        name = gen_label(rng, rng.range(1, 63))
    elif cls == "label63":
        parts = [gen_label(rng, rng.range(1, 10)) for _ in range(rng.range(0, 2))]
        parts.insert(rng.below(len(parts) + 1), gen_label(rng, 63))
        name = b".".join(parts)
    elif cls == "max253":
        name = gen_name_total(rng, 253)
    elif cls == "len252":
        name = gen_name_total(rng, 252)
    elif cls == "many1":
        k = rng.range(20, 127)
        name = b".".join(gen_label(rng, 1) for _ in range(k))
    elif cls == "mid":
        name = gen_name_total(rng, rng.range(20, 251))
    elif cls == "label64":
        parts = [gen_label(rng, rng.range(1, 10)) for _ in range(rng.range(0, 2))]
        parts.insert(rng.below(len(parts) + 1), gen_label(rng, rng.choice((64, 64, 65, 100, 127, 128, 192, 200))))
        name = b".".join(parts)
    elif cls == "emptylabel":
        a = gen_label(rng, rng.range(1, 8))
        b = gen_label(rng, rng.range(1, 8))
        name = a + b".." + b
    elif cls == "leadingdot":
        name = b"." + gen_label(rng, rng.range(1, 8)) + b".com"
    elif cls == "trailingdot":
        name = gen_name(rng, rng.choice(("simple", "simple", "label63", "single")))[0] + b"."
    elif cls == "overlong254":
        name = gen_name_total(rng, 254)
    elif cls == "overlong":
        name = gen_name_total(rng, rng.range(255, 300))
    else:  # root
        name = b""
    return name, cls


def name_class_of(name):
    """classification used by the oracle (independent of how the name was generated)"""
    if len(name) == 0:
        return "root"
    if dnsref.name_valid(name):
        return "valid"
    labels = name.split(b".")
    if name.endswith(b".") and len(name) > 1 and dnsref.name_valid(name[:-1]):
        return "trailingdot"
    if any(len(l) == 0 or len(l) > 63 for l in labels):
        return "badlabel"
    return "overlong"


def shape_of(name):
    if len(name) == 0:
        return "root"
    labels = name.split(b".")
    mx = max(len(l) for l in labels)
    return "len%s/lab%s/n%s" % (
        "253" if len(name) == 253 else "254+" if len(name) > 253 else ">=200" if len(name) >= 200 else
        ">=64" if len(name) >= 64 else "<64",
        "63" if mx == 63 else "64+" if mx > 63 else "0" if min(len(l) for l in labels) == 0 else "<63",
        "1" if len(labels) == 1 else "2-4" if len(labels) <= 4 else "5-31" if len(labels) < 32 else "32+")


def flip_case(rng, name):
    out = bytearray(name)
    for i, c in enumerate(out):
        if (65 <= c <= 90 or 97 <= c <= 122) and rng.chance(1, 2):
            out[i] = c ^ 0x20
    return bytes(out)


# ----------------------------------------------------------------------------
# params -> driver payload
# ----------------------------------------------------------------------------
FLAG_ORDER = ("qr", "opcode", "aa", "tc", "rd", "ra", "z", "ad", "cd", "rcode")


def dns_case_nongating(p):
    """True when the case contains an owner name outside the property's quantifier"""
    if p["op"] == "dns_build":
        return any(o["k"] != "opt" and name_class_of(unhx(o["name"])) in ("root", "overlong") for o in p["ops"])
    if p["op"] == "dns_name":
        return name_class_of(unhx(p["name"])) in ("root", "overlong")
    return False


def payload_of(p):
    w = W()
    op = p["op"]
    w.u8(OPNUM[op])
    if op == "dns_build":
        w.u16(p["id"])
        for f in FLAG_ORDER:
            w.u8(p["flags"][f])
        w.u32(p["bufsize"]).u8(p["fill"]).blob(unhx(p["find"])).u16(len(p["ops"]))
        w.u8(0 if dns_case_nongating(p) else 1)
        for o in p["ops"]:
            if o["k"] == "q":
                w.u8(1).blob(unhx(o["name"])).u16(o["type"]).u16(o["cls"])
            elif o["k"] == "rr":
                w.u8(2).u8(o["sec"]).blob(unhx(o["name"])).u16(o["type"]).u16(o["cls"]).u32(o["ttl"])
                w.blob(unhx(o["rdata"]))
            else:
                w.u8(3).u16(o["udp"]).u8(o["ver"]).u8(o["xr"]).u8(o["do"]).u8(o["z"]).blob(unhx(o["rdata"]))
    elif op == "dns_name":
        w.blob(unhx(p["name"])).u32(p["lsz"]).u32(p["nsz"])
    elif op == "rad_build":
        w.u8(p["mode"]).u8(p["code"]).u8(p["id"]).u8(1 if p["auth"] is not None else 0)
        w.raw(unhx(p["auth"]) if p["auth"] is not None else b"\0" * 16)
        w.blob(unhx(p["req"])).u32(p["bufsize"]).u8(p["fill"]).blob(unhx(p["key"])).u8(p["add_ma"])
        w.u16(len(p["attrs"]))
        for a in p["attrs"]:
            w.u8(a["kind"]).u8(a["t"]).u8(a.get("t2", 0)).blob(unhx(a["data"]))
    elif op == "rad_verify":
        w.blob(unhx(p["pkt"])).blob(unhx(p["key"])).blob(unhx(p["req"]))
    elif op == "rad_pw":
        w.raw(unhx(p["auth"])).blob(unhx(p["pw"])).blob(unhx(p["key"])).blob(unhx(p["enc_in"]))
        w.u32(p["esz"]).u32(p["dsz"])
    return w.done()


# ----------------------------------------------------------------------------
# DNS case generators
# ----------------------------------------------------------------------------
TYPES = (1, 2, 5, 6, 12, 15, 16, 28, 33, 43, 46, 48, 99, 255, 257, 0, 65535, 252)
CLASSES = (1, 1, 1, 3, 4, 254, 255, 0, 65535)
TTLS = (0, 1, 60, 3600, 86400, 604800, 0x7FFFFFFF, 0x80000000, 0xFFFFFFFF, 0x01020304, 0x00000100)


def gen_rdata(rng, big=False):
    m = rng.below(10)
    if m == 0:
        n = 0
    elif m < 4:
        n = rng.choice((4, 16))
    elif m < 8:
        n = rng.range(1, 64)
    else:
        n = rng.range(65, 1500 if big else 400)
    return rng.bytes(n)


def enc_len_of(o):
    """wire length of the op's record for a valid owner name, else None"""
    if o["k"] == "opt":
        return 11 + len(unhx(o["rdata"]))
    nm = unhx(o["name"])
    c = name_class_of(nm)
    if c == "valid":
        nl = len(nm) + 2
    elif c == "trailingdot":
        nl = len(nm) + 1
    else:
        return None
    return nl + (4 if o["k"] == "q" else 10 + len(unhx(o["rdata"])))


def gen_dns_build(rng):
    flags = dict(qr=rng.below(2), opcode=rng.choice((0, 0, 1, 2, 4, 5, 15)), aa=rng.below(2), tc=rng.below(2),
                 rd=rng.below(2), ra=rng.below(2), z=rng.below(2), ad=rng.below(2), cd=rng.below(2),
                 rcode=rng.choice((0, 0, 1, 2, 3, 5, 9, 15)))
    ops = []
    fillmode = rng.chance(1, 10)
    nongating_last = None
    if fillmode:
        for _ in range(rng.range(15, 60)):
            nm = gen_name(rng, "simple")[0]
            ops.append(dict(k="rr", sec=1, name=hx(nm), type=rng.choice(TYPES), cls=rng.choice(CLASSES),
                            ttl=rng.choice(TTLS), rdata=hx(rng.bytes(rng.range(0, 20)))))
    else:
        nq = rng.choice((0, 1, 1, 1, 2, 3))
        for _ in range(nq):
            nm, cls = gen_name(rng)
            ops.append(dict(k="q", name=hx(nm), type=rng.choice(TYPES), cls=rng.choice(CLASSES)))
        for sec in (1, 2, 3):
            for _ in range(rng.choice((0, 0, 1, 1, 2, 3))):
                nm, cls = gen_name(rng)
                t = rng.choice(TYPES) if rng.chance(3, 4) else rng.below(65536)
                if t == dnsref.TYPE_OPT:
                    t = 42
                ttl = rng.choice(TTLS) if rng.chance(1, 2) else rng.bits(32)
                ops.append(dict(k="rr", sec=sec, name=hx(nm), type=t,
                                cls=rng.choice(CLASSES) if rng.chance(3, 4) else rng.below(65536),
                                ttl=ttl, rdata=hx(gen_rdata(rng, big=rng.chance(1, 8)))))
        if rng.chance(1, 3):
            ops.append(dict(k="opt", udp=rng.choice((512, 1232, 4096, 65535, 0)),
                            ver=rng.choice((0, 0, 1, 255, rng.below(256))),
                            xr=rng.choice((0, 0, 1, 16, 255, rng.below(256))), do=rng.below(2),
                            z=rng.choice((0, 0, 0, 1, 0x80, 0xFF)),
                            rdata=hx(rng.bytes(rng.choice((0, 0, 4, 12, rng.range(1, 40)))))))
        if not ops:
            ops.append(dict(k="q", name=hx(gen_name(rng, "simple")[0]), type=1, cls=1))
    # total size when everything with a valid owner fits
    sizes = [12]
    for o in ops:
        l = enc_len_of(o)
        sizes.append(sizes[-1] + (l or 0))
    total = sizes[-1]
    m = rng.below(100)
    if fillmode:
        bufsize = rng.range(60, max(61, total))
    elif m < 30:
        bufsize = total
    elif m < 42:
        bufsize = max(0, total - 1)
    elif m < 52:
        bufsize = total + 1
    elif m < 72:
        k = rng.range(1, len(sizes) - 1)
        bufsize = max(0, sizes[k] - rng.choice((0, 1, 1, 2, 3, rng.range(1, 12))))
    elif m < 77:
        bufsize = rng.choice((0, 1, 11, 12, 13, 16, 17))
    else:
        bufsize = total + rng.range(2, 300)
    # what to look up
    rrn = [unhx(o["name"]) for o in ops if o["k"] == "rr" and name_class_of(unhx(o["name"])) == "valid"]
    if rrn and rng.chance(4, 5):
        find = flip_case(rng, rng.choice(rrn)) if rng.chance(2, 3) else rng.choice(rrn)
    else:
        find = gen_name(rng, "simple")[0]
    return dict(op="dns_build", id=rng.below(65536), flags=flags, bufsize=bufsize, fill=rng.choice((0, 0xFF, 0xA5, 0x2E)),
                find=hx(find), ops=ops)


B36 = b"0123456789abcdefghijklmnopqrstuvwxyz"


def b36(i):
    out = bytearray()
    while True:
        out.append(B36[i % 36])
        i //= 36
        if i == 0:
            break
    return bytes(out)


def many_ops(m):
    """deterministic expansion of a 'many small entries' descriptor: split = entries per
    section [qd, an, ns, ar]; one-label owner names (1-4 octets), A records"""
    ops = []
    i = m.get("off", 0)
    for sec, cnt in enumerate(m["split"]):
        for _ in range(cnt):
            nm = b36(i)
            if sec == 0:
                ops.append(dict(k="q", name=hx(nm), type=1 if i % 3 else 28, cls=1))
            else:
                ops.append(dict(k="rr", sec=sec, name=hx(nm), type=1, cls=1, ttl=(i * 7 + 1) & 0xFFFFFFFF,
                                rdata=hx(struct.pack(">I", (0x0A000000 + i) & 0xFFFFFFFF))))
            i += 1
    return ops


COUNT_EDGES = (255, 256, 257, 511, 512, 513, 300, 600, 1024, 767, 768)


def gen_dns_many(rng, scale):
    """buffers of 4-64 KiB filled with minimal questions / A records so that section counters
    cross 255/256/257/511/512...; either roomy (every add fits, exact final counts) or
    'until full' (more adds than fit)"""
    shape = rng.choice(("q", "an", "ns", "ar", "mixed", "mixed"))
    n = rng.choice(COUNT_EDGES) if rng.chance(3, 4) else rng.range(258, 1500)
    if scale > 1 and rng.chance(1, 3):
        n = rng.choice((1023, 1024, 1025, 2048, 4095, 4096, 4097, rng.range(1500, 9000)))
    if shape == "mixed":
        a = rng.choice((n, 256, 257, 255))
        split = [rng.choice((1, 2, a)), a, rng.choice((0, 3, a, 256)), rng.choice((0, 1, 256, 300))]
        rng.shuffle(split)
    else:
        split = [0, 0, 0, 0]
        split[("q", "an", "ns", "ar").index(shape)] = n
    m = dict(shape=shape, split=split, off=rng.below(1000))
    ops = many_ops(m)
    total = 12 + sum(enc_len_of(o) for o in ops)
    if rng.chance(1, 3):
        # until full: a 4-64 KiB buffer smaller than the sequence needs
        bufsize = max(4096, min(65536, total - rng.range(1, 2000)))
        if bufsize >= total:
            bufsize = total - rng.range(1, 30)
    else:
        bufsize = total + rng.choice((0, 0, 1, 5, 100))
    find = unhx(ops[rng.below(len(ops))]["name"])
    flags = dict(qr=rng.below(2), opcode=0, aa=0, tc=0, rd=1, ra=rng.below(2), z=0, ad=0, cd=0, rcode=0)
    return dict(op="dns_build", id=rng.below(65536), flags=flags, bufsize=bufsize, fill=rng.choice((0, 0xFF, 0xA5)),
                find=hx(flip_case(rng, find)), ops=ops, many=m)


def gen_dns_max_questions(rng):
    """65535 one-label questions: the QDCOUNT field at its maximum"""
    m = dict(shape="q", split=[65535, 0, 0, 0], off=0)
    ops = many_ops(m)
    total = 12 + sum(enc_len_of(o) for o in ops)
    return dict(op="dns_build", id=rng.below(65536),
                flags=dict(qr=0, opcode=0, aa=0, tc=0, rd=1, ra=0, z=0, ad=0, cd=0, rcode=0), bufsize=total, fill=0,
                find=hx(b"zz9"), ops=ops, many=m)


def gen_dns_name(rng):
    nm, cls = gen_name(rng)
    n = len(nm)
    lsz = rng.choice((n + 2, n + 2, n + 2, n + 1, n + 3, n, 0, 1, 2, n + 40))
    nsz = rng.choice((n + 1, n + 1, n + 2, n + 2, n, n + 3, 1, max(1, n - 1), n + 50))
    return dict(op="dns_name", name=hx(nm), lsz=lsz, nsz=nsz)


# ----------------------------------------------------------------------------
# evaluation helpers
# ----------------------------------------------------------------------------
class Ctx:
    def __init__(self, part, variant, params):
        self.part = part
        self.variant = variant
        self.params = params
        self.bad = False

    def viol(self, key, **info):
        self.bad = True
        if "many" in self.params:      # ops are re-derived from the descriptor on replay
            wp = {k: v for k, v in self.params.items() if k != "ops"}
            wit = {"variant": self.variant, "params": wp, "seed": common.seed()}
            info = {k: (v if len(json.dumps(v, default=str)) < 4000 else "(elided, %d chars)" % len(json.dumps(v, default=str)))
                    for k, v in info.items()}
        else:
            wit = {"variant": self.variant, "params": self.params, "payload": hx(payload_of(self.params)),
                   "seed": common.seed()}
        wit.update(info)
        self.part["violations"].append((key, wit))

    def observe(self, key):
        self.part["observations"][key] = self.part["observations"].get(key, 0) + 1

    def cls(self, *c):
        self.part["classes"].add(tuple(c))

    def count(self, name, n=1):
        common.part_count(self.part, name, n)


def segdiff(ref_segments, got):
    """ref_segments: list of (label, bytes).  Returns label of the first segment in which
    `got` differs from the concatenation, or None."""
    off = 0
    for label, b in ref_segments:
        if got[off:off + len(b)] != b:
            return label
        off += len(b)
    if len(got) != off:
        return "length"
    return None


def read_dns_build(obs, nops):
    r = R(obs)
    o = {"hdr_rc": r.i32(), "hdr_size": r.u64()}
    if o["hdr_rc"] != 0:
        o["buf"] = r.blob()
        return o
    o["ops"] = [(r.i32(), r.u64()) for _ in range(nops)]
    o["msg_size"] = r.u64()
    o["buf"] = r.blob()
    o["parsed"] = r.u8()
    if not o["parsed"]:
        return o
    o["validate"] = r.i32()
    o["info_rc"] = r.i32()
    o["info"] = [r.u64() for _ in range(6)]
    o["counts"] = [r.u16() for _ in range(4)]
    o["id"] = r.u16()
    o["flags"] = r.u16()
    o["rcode"] = r.u8()
    qs = []
    nq = r.u16()
    o["nq"] = nq
    for _ in range(nq):
        rc = r.i32()
        if rc != 0:
            qs.append({"rc": rc})
            break
        qs.append(dict(rc=0, off=r.u64(), name=r.blob(), nlen=r.u64(), term=r.u8(), type=r.u16(), cls=r.u16(),
                       size=r.u64()))
    o["qs"] = qs
    rs = []
    nr = r.u16()
    o["nr"] = nr
    for _ in range(nr):
        rc = r.i32()
        if rc != 0:
            rs.append({"rc": rc})
            break
        rs.append(dict(rc=0, off=r.u64(), name=r.blob(), nlen=r.u64(), term=r.u8(), type=r.u16(), cls=r.u16(),
                       ttl=r.u32(), dsize=r.u16(), doff=r.i64(), size=r.u64()))
    o["rs"] = rs
    assert r.u8() == 0xAB
    found = []
    while True:
        rc = r.i32()
        if rc != 0:
            o["find_rc"] = rc
            break
        found.append(dict(off=r.u64(), left=r.u64(), type=r.u16(), cls=r.u16(), ttl=r.u32(), dsize=r.u16(),
                          doff=r.i64(), size=r.u64()))
        if len(found) > 4096:
            o["find_rc"] = 0
            break
    o["found"] = found
    return o


def native_u16(two):
    return struct.unpack("=H", bytes(two))[0]


def eval_dns_build(ctx, obs):
    p = ctx.params
    ops = p["ops"]
    o = read_dns_build(obs, len(ops))
    bufsize = p["bufsize"]
    ctx.count("dns_build_cases")
    id2 = struct.pack("=H", p["id"])          # opaque cookie, stored as given (see assumptions)
    fl2 = dnsref.flags_word(**p["flags"])
    # --- header
    if bufsize < 12:
        if o["hdr_rc"] == 0:
            ctx.viol("oracle:dns_hdr_create:accepted-too-small-buffer", observed_rc=0, bufsize=bufsize)
        ctx.cls("dns", "hdr", "buf<12", "refused" if o["hdr_rc"] else "accepted")
        return
    if o["hdr_rc"] != 0 or o["hdr_size"] != 12:
        ctx.viol("oracle:dns_hdr_create:refused-although-fits", observed_rc=o["hdr_rc"], size=o["hdr_size"])
        return
    # --- replay the adds against the reference
    size = 12
    body = []            # (label, bytes)
    counts = [0, 0, 0, 0]
    tainted = False      # a non-gating owner name was accepted: later state is taken from the library
    buf = o["buf"]
    for i, (op, (rc, ret)) in enumerate(zip(ops, o["ops"])):
        kind = op["k"]
        entry = {"q": "dns_msg_question_add", "rr": "dns_msg_rr_add", "opt": "dns_msg_optrr_add"}[kind]
        nm = unhx(op["name"]) if kind != "opt" else b""
        ncls = "valid" if kind == "opt" else name_class_of(nm)
        shape = "opt-root" if kind == "opt" else shape_of(nm)
        rdata = unhx(op.get("rdata", ""))
        if ncls in ("valid", "trailingdot"):
            wname = nm if ncls == "valid" else nm[:-1]
            if kind == "q":
                segs = [("name", dnsref.encode_name(wname)), ("type", struct.pack(">H", op["type"])),
                        ("class", struct.pack(">H", op["cls"]))]
            elif kind == "rr":
                segs = [("name", dnsref.encode_name(wname)), ("type", struct.pack(">H", op["type"])),
                        ("class", struct.pack(">H", op["cls"])), ("ttl", struct.pack(">I", op["ttl"])),
                        ("rdlength", struct.pack(">H", len(rdata))), ("rdata", rdata)]
            else:
                segs = [("name", b"\0"), ("type", struct.pack(">H", 41)), ("udp-size", struct.pack(">H", op["udp"])),
                        ("ext-rcode", bytes([op["xr"]])), ("version", bytes([op["ver"]])),
                        ("do-z", bytes([(op["do"] << 7), op["z"]])), ("rdlength", struct.pack(">H", len(rdata))),
                        ("rdata", rdata)]
            need = sum(len(b) for _, b in segs)
            fits = size + need <= bufsize
            rel = "fits-exactly" if size + need == bufsize else "fits" if fits else \
                "short-by-1" if size + need == bufsize + 1 else "short"
            ctx.cls("dns", kind, ncls, shape, rel, "ok" if rc == 0 else "refused")
            if ncls == "trailingdot" and rc != 0:
                ctx.observe("dns:%s:trailing-dot-name-refused" % entry)
                continue
            if fits and rc != 0:
                ctx.viol("oracle:%s:refused-although-fits" % entry, op_index=i, observed_rc=rc,
                         msg_size=size, need=need, bufsize=bufsize)
                continue
            if not fits:
                if rc == 0:
                    ctx.viol("oracle:%s:accepted-although-too-big" % entry, op_index=i, msg_size=size, need=need,
                             bufsize=bufsize, returned_size=ret)
                    return
                continue
            # accepted and fits
            if ret != size + need and not (ret == NOSIZE):
                ctx.viol("oracle:%s:wrong-size-returned" % entry, op_index=i, expected=size + need, observed=ret)
                return
            if ret == NOSIZE:
                ctx.viol("oracle:%s:size-not-returned" % entry, op_index=i)
                return
            got = buf[size:size + need]
            d = segdiff(segs, got)
            if d is not None:
                ctx.viol("oracle:%s:wire-mismatch:%s" % (entry, d), op_index=i,
                         expected=hx(b"".join(b for _, b in segs)), observed=hx(got))
                return
            body.append((entry, got))
            size += need
            counts[0 if kind == "q" else op.get("sec", 3) if kind == "rr" else 3] += 1
        elif ncls == "badlabel":
            ctx.cls("dns", kind, ncls, shape, "n/a", "ok" if rc == 0 else "refused")
            if rc == 0:
                ctx.viol("oracle:%s:accepted-invalid-label" % entry, op_index=i, name=hx(nm))
                return
        else:   # root / overlong owner: outside the quantifier of the property, recorded only
            ctx.cls("dns", kind, ncls, shape, "n/a", "ok" if rc == 0 else "refused")
            ctx.observe("dns:%s:%s-owner:%s" % (entry, ncls, "accepted" if rc == 0 else "refused"))
            if rc == 0:
                if ncls == "root":
                    real = 1 + (4 if kind == "q" else 10 + len(rdata))
                    if ret != size + real:
                        ctx.observe("dns:%s:root-owner:returned-size-off-by-%d" % (entry, ret - size - real))
                tainted = True
                if ret > bufsize or ret < size:
                    return
                body.append((entry, buf[size:ret]))
                size = ret
                counts[0 if kind == "q" else op.get("sec", 3)] += 1
    if o["msg_size"] != size:
        ctx.viol("harness:dns_build:size-tracking", expected=size, observed=o["msg_size"])
        return
    hdr_ref = dnsref.encode_header(id2, fl2, *counts)
    d = segdiff([("id", id2), ("flags", fl2), ("qdcount", hdr_ref[4:6]), ("ancount", hdr_ref[6:8]),
                 ("nscount", hdr_ref[8:10]), ("arcount", hdr_ref[10:12])], buf[:12])
    if d is not None:
        ctx.viol("oracle:dns_hdr:wire-mismatch:%s" % d, expected=hx(hdr_ref), observed=hx(buf[:12]))
        return
    ref = hdr_ref + b"".join(b for _, b in body)
    if buf[:size] != ref:
        ctx.viol("oracle:dns_msg:earlier-record-modified-by-later-add", expected=hx(ref), observed=hx(buf[:size]))
        return
    ctx.count("dns_messages_byte_identical")
    mx = max(counts)
    if mx >= 255:
        bucket = "255" if mx == 255 else "256" if mx == 256 else "257" if mx == 257 else "258-510" if mx < 511 else \
            "511" if mx == 511 else "512" if mx == 512 else "513-1023" if mx < 1024 else "1024-4095" if mx < 4096 else \
            "4096-65534" if mx < 65535 else "65535"
        ctx.cls("dns", "section-count", "qd,an,ns,ar".split(",")[counts.index(mx)], bucket,
                "sections>=256:%d" % sum(1 for c in counts if c >= 256),
                "full" if any(rc != 0 for rc, _ in o["ops"]) else "all-fit")
        ctx.count("dns_messages_with_section_count_ge_256" if mx >= 256 else "dns_messages_with_section_count_255")
    if not o.get("parsed") or tainted:
        return
    # --- parse back, judged against the reference decoder run on the same octets
    try:
        dm = dnsref.decode_message(ref)
    except dnsref.DnsError as e:
        ctx.viol("harness:dnsref:cannot-decode-own-encoding", error=str(e))
        return
    if o["validate"] != 0:
        ctx.viol("oracle:dns_msg_validate:rejects-own-message", observed_rc=o["validate"], msg=hx(ref))
        return
    exp_info = [12, dm["sec_offs"][0], dm["sec_offs"][1], dm["sec_offs"][2], counts[1] + counts[2] + counts[3], size]
    if o["info_rc"] != 0 or o["info"] != exp_info:
        ctx.viol("oracle:dns_msg_info_get:wrong-offsets", expected=exp_info, observed=o["info"], rc=o["info_rc"])
        return
    if o["counts"] != counts or o["id"] != p["id"] or o["flags"] != native_u16(fl2) or o["rcode"] != p["flags"]["rcode"]:
        ctx.viol("oracle:dns_hdr_get:wrong-header-fields", expected=[counts, p["id"], native_u16(fl2)],
                 observed=[o["counts"], o["id"], o["flags"], o["rcode"]])
        return
    for i, q in enumerate(dm["questions"]):
        g = o["qs"][i] if i < len(o["qs"]) else {"rc": "missing"}
        if g["rc"] != 0:
            ctx.viol("oracle:dns_msg_question_get_data:fails-on-own-message", index=i, rc=g["rc"])
            return
        exp = (q["offset"], q["name"], len(q["name"]), 0, q["type"], q["cls"], q["size"])
        got = (g["off"], g["name"], g["nlen"], g["term"], g["type"], g["cls"], g["size"])
        if exp != got:
            fld = ("offset", "name", "name-len", "terminator", "type", "class", "size")[
                [a == b for a, b in zip(exp, got)].index(False)]
            ctx.viol("oracle:dns_msg_question_get_data:wrong-%s" % fld, index=i, expected=_j(exp), observed=_j(got))
            return
    for i, rec in enumerate(dm["records"]):
        g = o["rs"][i] if i < len(o["rs"]) else {"rc": "missing"}
        if g["rc"] != 0:
            ctx.viol("oracle:dns_msg_rr_get_data:fails-on-own-message", index=i, rc=g["rc"])
            return
        ttl_exp = struct.unpack("=I", rec["ttl_raw"])[0] if rec["type"] == 41 else rec["ttl"]
        exp = (rec["offset"], rec["name"], len(rec["name"]), 0, rec["type"], rec["cls"], ttl_exp, len(rec["rdata"]),
               rec["rdata_off"], rec["size"])
        got = (g["off"], g["name"], g["nlen"], g["term"], g["type"], g["cls"], g["ttl"], g["dsize"], g["doff"], g["size"])
        if exp != got:
            fld = ("offset", "name", "name-len", "terminator", "type", "class", "ttl", "rdlength", "rdata-pointer",
                   "size")[[a == b for a, b in zip(exp, got)].index(False)]
            ctx.viol("oracle:dns_msg_rr_get_data:wrong-%s" % fld, index=i, expected=_j(exp), observed=_j(got))
            return
    ctx.count("dns_records_parsed_back", len(dm["records"]) + len(dm["questions"]))
    # rr_find
    want = dnsref.ascii_lower(unhx(p["find"]))
    total = len(dm["records"])
    expf = []
    for idx, rec in enumerate(dm["records"]):
        if dnsref.ascii_lower(rec["name"]) == want:
            ttl_exp = struct.unpack("=I", rec["ttl_raw"])[0] if rec["type"] == 41 else rec["ttl"]
            expf.append(dict(off=rec["offset"], left=total - idx - 1, type=rec["type"], cls=rec["cls"], ttl=ttl_exp,
                             dsize=len(rec["rdata"]), doff=rec["rdata_off"], size=rec["size"]))
    if o["found"] != expf or o["find_rc"] == 0:
        ctx.viol("oracle:dns_msg_rr_find:wrong-matches", name=p["find"], expected=expf, observed=o["found"],
                 final_rc=o["find_rc"])
        return
    ctx.cls("dns", "rr_find", "matches=%s" % ("0" if not expf else "1" if len(expf) == 1 else "2+"),
            "case-differs" if unhx(p["find"]) not in [r["name"] for r in dm["records"]] and expf else "same-case")
    ctx.count("dns_rr_find_checked")


def _j(t):
    return [hx(x) if isinstance(x, (bytes, bytearray)) else x for x in t]


def read_dns_name(obs):
    r = R(obs)
    o = dict(rc=r.i32(), ret=r.u64(), lbuf=r.blob())
    if o["rc"] == 0 and o["ret"] <= len(o["lbuf"]):
        o["gs_rc"], o["gs"] = r.i32(), r.u64()
        o["back_rc"], o["back_ret"], o["nbuf"] = r.i32(), r.u64(), r.blob()
    o["m_rc"], o["m_ret"], o["m_lbuf"] = r.i32(), r.u64(), r.blob()
    if o["m_rc"] == 0 and o["m_ret"] <= len(o["m_lbuf"]):
        o["ml_rc"], o["ml"] = r.i32(), r.u64()
        o["m2_rc"], o["m2_ret"], o["m_nbuf"] = r.i32(), r.u64(), r.blob()
    return o


def eval_dns_name(ctx, obs):
    p = ctx.params
    nm = unhx(p["name"])
    lsz, nsz = p["lsz"], p["nsz"]
    o = read_dns_name(obs)
    ncls = name_class_of(nm)
    n = len(nm)
    ctx.count("dns_name_cases")
    for fn, rc, ret, lbuf in (("DomainNameToSequenceOfLabels", o["rc"], o["ret"], o["lbuf"]),
                              ("dns_msg_name2sequence_of_labels", o["m_rc"], o["m_ret"], o["m_lbuf"])):
        rel = "exact" if lsz == n + 2 else "short-by-1" if lsz == n + 1 else "short" if lsz < n + 2 else "roomy"
        ctx.cls("name2labels", fn, ncls, shape_of(nm), rel, "ok" if rc == 0 else "refused")
        if ncls == "valid":
            enc = dnsref.encode_name(nm)
            if lsz >= n + 2:
                if rc != 0:
                    ctx.viol("oracle:%s:refused-valid-name" % fn, observed_rc=rc)
                elif ret != n + 2 or lbuf[:n + 2] != enc:
                    ctx.viol("oracle:%s:wrong-labels" % fn, expected=hx(enc), observed=hx(lbuf[:n + 2]), size=ret)
            elif rc == 0:
                ctx.viol("oracle:%s:accepted-too-small-buffer" % fn, lsz=lsz, need=n + 2)
        elif ncls == "badlabel":
            if rc == 0:
                ctx.viol("oracle:%s:accepted-invalid-label" % fn, name=p["name"])
        elif ncls == "trailingdot":
            if rc == 0:
                enc = dnsref.encode_name(nm[:-1])
                if lbuf[:ret] != enc:
                    ctx.viol("oracle:%s:wrong-labels:trailing-dot" % fn, expected=hx(enc), observed=hx(lbuf[:ret]))
            else:
                ctx.observe("dns:%s:trailing-dot-name-refused" % fn)
        else:
            ctx.observe("dns:%s:%s-name:%s" % (fn, ncls, "accepted" if rc == 0 else "refused"))
            if ncls == "root" and rc == 0 and lbuf[:1] != b"\0":
                ctx.observe("dns:%s:root-name:not-a-zero-octet" % fn)
    if ctx.bad or ncls != "valid":
        return
    if o["rc"] == 0:
        if o["gs_rc"] != 0 or o["gs"] != n + 2:
            ctx.viol("oracle:SequenceOfLabelsGetSize:wrong-size", expected=n + 2, observed=o["gs"], rc=o["gs_rc"])
        rel = "exact" if nsz == n + 1 else "short" if nsz < n + 1 else "roomy"
        ctx.cls("labels2name", "SequenceOfLabelsToDomainName", shape_of(nm), rel, "ok" if o["back_rc"] == 0 else "refused")
        if nsz >= n + 1:
            if o["back_rc"] != 0:
                ctx.viol("oracle:SequenceOfLabelsToDomainName:refused-although-fits", rc=o["back_rc"], nsz=nsz, name_len=n)
            elif o["nbuf"][:n] != nm or o["nbuf"][n] != 0:
                ctx.viol("oracle:SequenceOfLabelsToDomainName:wrong-name", expected=p["name"], observed=hx(o["nbuf"][:n + 1]))
        elif o["back_rc"] == 0:
            ctx.viol("oracle:SequenceOfLabelsToDomainName:accepted-too-small-buffer", nsz=nsz, name_len=n)
    if o["m_rc"] == 0:
        if o["ml_rc"] != 0 or o["ml"] != n:
            ctx.viol("oracle:dns_msg_sequence_of_labels_get_name_len:wrong-length", expected=n, observed=o["ml"], rc=o["ml_rc"])
        rel = "exact" if nsz == n + 1 else "exact+1" if nsz == n + 2 else "short" if nsz < n + 1 else "roomy"
        ctx.cls("labels2name", "dns_msg_sequence_of_labels2name", shape_of(nm), rel, "ok" if o["m2_rc"] == 0 else "refused")
        if o["m2_rc"] == 0:
            if nsz < n + 1:
                ctx.viol("oracle:dns_msg_sequence_of_labels2name:accepted-too-small-buffer", nsz=nsz, name_len=n)
            elif o["m_nbuf"][:n] != nm or o["m_nbuf"][n] != 0 or o["m2_ret"] != n:
                ctx.viol("oracle:dns_msg_sequence_of_labels2name:wrong-name", expected=p["name"],
                         observed=hx(o["m_nbuf"][:n + 1]), len=o["m2_ret"])
        elif nsz >= n + 2:
            ctx.viol("oracle:dns_msg_sequence_of_labels2name:refused-although-fits", rc=o["m2_rc"], nsz=nsz, name_len=n)
        elif nsz == n + 1:
            # n octets + terminator fit, the library asks for one more; the property does not state a
            # buffer contract for the text form, so this is recorded, not judged
            ctx.observe("dns:dns_msg_sequence_of_labels2name:needs-name_len+2-octets")
    ctx.count("dns_names_round_tripped")


# ----------------------------------------------------------------------------
# RADIUS case generators
# ----------------------------------------------------------------------------
REQ_CODES = (1, 4, 12, 13, 40, 43)
STR_TYPES = (1, 11, 18, 19, 20, 22, 24, 25, 30, 31, 32, 33, 34, 35, 39, 44, 50, 63, 77, 87, 88, 99, 100)
INT_TYPES = (5, 6, 7, 10, 12, 13, 15, 16, 23, 27, 28, 29, 37, 38, 40, 41, 42, 43, 45, 46, 47, 48, 49, 51, 52, 53,
             55, 61, 62, 85, 101)
V4_TYPES = (4, 8, 9, 14)
V6_TYPES = (95, 98)


def gen_secret(rng):
    n = rng.choice((1, 2, 8, 15, 16, 17, 31, 32, 33, 48, 63, 64, rng.range(1, 64)))
    return rng.bytes(n)


def gen_password(rng):
    n = rng.choice((0, 1, 8, 15, 16, 17, 31, 32, 33, 47, 48, 49, 63, 64, 65, 79, 80, 81, 95, 96, 97, 111, 112, 113,
                    127, 128, rng.range(0, 128)))
    return bytes(rng.range(1, 255) for _ in range(n))     # no NUL: RFC 2865 5.2 pads with NULs


def gen_attr(rng):
    """one attribute op; mostly RFC-valid (type, length) pairs, some off-by-one lengths"""
    m = rng.below(100)
    if m < 30:
        t = rng.choice(STR_TYPES)
        n = rng.choice((1, 2, 5, 16, 63, 64, 200, 252, 253, rng.range(1, 253)))
        return dict(kind=0, t=t, data=hx(rng.bytes(n)))
    if m < 50:
        return dict(kind=0, t=rng.choice(INT_TYPES), data=hx(rng.bytes(4)))
    if m < 56:
        return dict(kind=1, t=rng.choice(INT_TYPES), data=hx(rng.bytes(4)))
    if m < 62:
        return dict(kind=0, t=rng.choice(V4_TYPES), data=hx(rng.bytes(4)))
    if m < 66:
        return dict(kind=0, t=rng.choice(V6_TYPES), data=hx(rng.bytes(16)))
    if m < 72:
        if rng.chance(1, 2):
            return dict(kind=2, t=rng.choice(V4_TYPES), t2=rng.choice(V6_TYPES), data=hx(b"\x04" + rng.bytes(6)))
        return dict(kind=2, t=rng.choice(V4_TYPES), t2=rng.choice(V6_TYPES), data=hx(b"\x06" + rng.bytes(18)))
    if m < 75:
        fam = rng.choice((4, 6))
        return dict(kind=3, t=5, data=hx(bytes([fam]) + rng.bytes(6 if fam == 4 else 18)))
    if m < 79:
        return dict(kind=0, t=26, data=hx(rng.bytes(rng.choice((5, 6, 20, 253)))))
    if m < 82:
        return _fixed_attr(rng)
    if m < 90:
        # deliberately wrong / unknown lengths and types: consistency only
        t = rng.choice((3, 4, 5, 36, 60, 95, 96, 97, 26, 17, 21, 54, 93, 191, 192, 224, 241, 245, 247, 255, 89, 59))
        n = rng.choice((0, 1, 2, 3, 4, 5, 7, 8, 15, 16, 17, 18, 19, 32, 33, 253, 254, 255))
        return dict(kind=0, t=t, data=hx(rng.bytes(n)))
    if m < 95:
        return dict(kind=0, t=79, data=hx(rng.bytes(rng.range(1, 253))))       # EAP-Message: needs M-A
    t = rng.range(1, 255)
    while t in (2, 80):
        # User-Password and Message-Authenticator occur at most once per packet (RFC 2865 5.2, RFC 2869 5.14) and are placed
        # by gen_radius_case itself: a second, random one would make "the" password / authenticator of the packet ambiguous
        t = rng.range(1, 255)
    return dict(kind=0, t=t, data=hx(rng.bytes(rng.range(1, 60))))


def _fixed_attr(rng):
    t = rng.choice((3, 36, 60, 96, 97))
    n = {3: 17, 36: 32, 60: rng.range(5, 40), 96: 8, 97: rng.range(2, 18)}[t]
    return dict(kind=0, t=t, data=hx(rng.bytes(n)))


def ref_request(rng, code, secret):
    """a signed request packet (reference-built) for reply tests"""
    attrs = [(1, b"user"), (32, b"nas-%d" % rng.below(100))]
    if code == 12 or rng.chance(1, 3):
        attrs.append((rr.T_MSG_AUTH, rr.ZERO16))
    return rr.sign(code, rng.below(256), rng.bytes(16), attrs, secret)


def gen_rad_build(rng):
    secret = gen_secret(rng)
    m = rng.below(100)
    req = b""
    auth = None
    mode = 0
    if m < 45:
        code = rng.choice(REQ_CODES)
        if code in rr.RANDOM_AUTH_CODES or rng.chance(1, 2):
            auth = rng.bytes(16)
    else:
        code = rng.choice(rr.REPLY_CODES)
        rq_code = rr.REPLY_TO[code]
        if code in (2, 5) and rng.chance(1, 4):
            rq_code = 12                      # replies to Status-Server (RFC 5997)
        req = ref_request(rng, rq_code, secret)
        mode = 1
    attrs = []
    pw = None
    for _ in range(rng.choice((0, 1, 2, 3, 3, 4, 6, 10, 20))):
        attrs.append(gen_attr(rng))
    if code == 1 and rng.chance(3, 5):
        pw = gen_password(rng)
        if rng.chance(1, 2):
            a = dict(kind=0, t=2, data=hx(pw))                    # the documented way
        else:
            a = dict(kind=4, t=2, data=hx(rr.pad_password(pw)))   # what attr_add would store
        a["pw"] = hx(pw)
        attrs.insert(rng.below(len(attrs) + 1), a)
    ma_mode = rng.below(10)
    add_ma = 0
    if ma_mode < 3:
        attrs.insert(rng.below(len(attrs) + 1), dict(kind=0, t=80, data=hx(rng.bytes(rng.choice((0, 16, 3))))))
    elif ma_mode < 4:
        attrs.insert(rng.below(len(attrs) + 1), dict(kind=4, t=80, data=hx(rng.bytes(16))))   # stale value
    elif ma_mode < 7 or code == 12:
        add_ma = 1
    # size when everything is accepted
    tot = 20
    for a in attrs:
        d = unhx(a["data"])
        if a["kind"] == 0 and a["t"] == 2:
            tot += 2 + len(rr.pad_password(d))
        elif a["t"] == 80 and a["kind"] == 0:
            tot += 18
        elif a["kind"] == 2:
            tot += 6 if d[0] == 4 else 18
        elif a["kind"] in (1, 3):
            tot += 6
        else:
            tot += 2 + len(d)
    if add_ma:
        tot += 18
    b = rng.below(100)
    if b < 35:
        bufsize = min(4096, tot)
    elif b < 45:
        bufsize = min(4096, max(0, tot - 1))
    elif b < 55:
        bufsize = min(4096, tot + 1)
    elif b < 70:
        bufsize = min(4096, max(0, tot - rng.range(2, 40)))
    elif b < 74:
        bufsize = rng.choice((0, 19, 20, 21, 22))
    else:
        bufsize = 4096
    return dict(op="rad_build", mode=mode, code=code, id=rng.below(256), auth=hx(auth) if auth is not None else None,
                req=hx(req), bufsize=bufsize, fill=rng.choice((0, 0xFF, 0x5A)), key=hx(secret), add_ma=add_ma,
                attrs=attrs)


def gen_rad_pw(rng):
    pw = gen_password(rng) if rng.chance(7, 8) else rng.bytes(rng.range(0, 128))
    key = gen_secret(rng)
    auth = rng.bytes(16)
    need = len(rr.pad_password(pw))
    esz = rng.choice((need, need, need, need - 1, need + 1, need - 16, need + 16, 0, 200))
    dsz = rng.choice((need, need, need, need + 1, need - 1, need + 16, 0, 200))
    return dict(op="rad_pw", auth=hx(auth), pw=hx(pw), key=hx(key), enc_in=hx(rr.hide_password(pw, key, auth)),
                esz=max(0, esz), dsz=max(0, dsz))


def gen_signed_reference(rng):
    """(code, signed packet, secret, request packet or b'') built by the reference only"""
    secret = gen_secret(rng)
    if rng.chance(2, 5):
        code = rng.choice((1, 4, 12, 40, 43))
        req = b""
        req_auth = None
    else:
        code = rng.choice(rr.REPLY_CODES)
        rq = rr.REPLY_TO[code]
        if code in (2, 5) and rng.chance(1, 5):
            rq = 12
        req = ref_request(rng, rq, secret)
        req_auth = req[4:20]
    attrs = []
    for _ in range(rng.choice((0, 1, 2, 3, 5))):
        a = gen_attr(rng)
        d = unhx(a["data"])
        if a["kind"] == 0 and rr.rfc_len_ok(a["t"], len(d)) and a["t"] != 79:
            attrs.append((a["t"], d))
    if code == 1 and rng.chance(1, 2):
        attrs.insert(rng.below(len(attrs) + 1), (2, gen_password(rng)))
    has_ma = code == 12 or rng.chance(1, 2)
    if code == 5 and (not req or req[0] != 12):
        has_ma = False                       # M-A in a reply to Accounting-Request: not defined by the RFCs
    if has_ma:
        attrs.insert(rng.below(len(attrs) + 1), (rr.T_MSG_AUTH, rr.ZERO16))
    pkt = rr.sign(code, rng.below(256), rng.bytes(16), attrs, secret, req_auth=req_auth)
    return code, pkt, secret, req, has_ma


XOR_MASKS = (0x01, 0x80, 0xFF, 0x10)


def pos_class(pkt, pos):
    if pos == 0:
        return "code"
    if pos == 1:
        return "id"
    if pos < 4:
        return "length"
    if pos < 20:
        return "authenticator"
    try:
        _, _, _, _, attrs = rr.parse(pkt)
    except rr.RadiusError:
        return "attr"
    for t, v, off in attrs:
        if off <= pos < off + 2 + len(v):
            part = "type" if pos == off else "len" if pos == off + 1 else "value"
            return "%s-%s" % ("ma" if t == 80 else "pw" if t == 2 else "attr", part)
    return "attr"


def gen_rad_verify_set(rng, thorough):
    """untouched + wrong secret + single-octet corruptions of one reference-signed packet"""
    code, pkt, secret, req, has_ma = gen_signed_reference(rng)
    base = dict(op="rad_verify", key=hx(secret), req=hx(req), code=code, has_ma=has_ma)
    out = [dict(base, pkt=hx(pkt), what="untouched")]
    ws = bytearray(secret)
    ws[rng.below(len(ws))] ^= rng.choice(XOR_MASKS)
    out.append(dict(base, pkt=hx(pkt), key=hx(bytes(ws)), what="wrong-secret", right_key=hx(secret)))
    if rng.chance(1, 2):
        out.append(dict(base, pkt=hx(pkt), key=hx(secret + b"\0"), what="wrong-secret", right_key=hx(secret)))
    if thorough:
        positions = range(len(pkt))
        masks = XOR_MASKS[:3]
    else:
        positions = sorted(set([0, 1, 2, 3, 4, 19, len(pkt) - 1] + [rng.below(len(pkt)) for _ in range(6)]))
        positions = [x for x in positions if x < len(pkt)]
        masks = None
    for pos in positions:
        for mask in (masks or (rng.choice(XOR_MASKS),)):
            q = bytearray(pkt)
            q[pos] ^= mask
            out.append(dict(base, pkt=hx(q), what="corrupt", pos=pos, mask=mask, posclass=pos_class(pkt, pos),
                            right_key=hx(secret)))
    return out


# ----------------------------------------------------------------------------
# RADIUS evaluation
# ----------------------------------------------------------------------------
def _read_list(r):
    n = r.u16()
    out = []
    for _ in range(n):
        t = r.u8()
        off = r.u32()
        out.append((t, r.blob(), off))
    return out


def read_rad_build(obs, nattrs):
    r = R(obs)
    o = dict(init_rc=r.i32(), init_size=r.u64())
    if o["init_rc"] != 0:
        o["buf"] = r.blob()
        return o
    o["attrs"] = [(r.i32(), r.u64(), r.u64(), r.u16()) for _ in range(nattrs)]
    o["pre"] = r.blob()
    o["chk_pre"] = r.i32()
    o["list_pre"] = _read_list(r)
    o["sign_rc"] = r.i32()
    o["sign_size"] = r.u64()
    o["post"] = r.blob()
    o["chk_post"] = r.i32()
    o["list_post"] = _read_list(r)
    o["recv"] = r.u8()
    if o["recv"]:
        o["r_chk"] = r.i32()
        o["calc_rc"] = r.i32()
        o["calc"] = r.b[r.o:r.o + 16]
        r.o += 16
        o["verify"] = r.i32()
        o["pw_present"] = r.u8()
        if o["pw_present"]:
            o["pw_rc"] = r.i32()
            o["pw"] = r.blob()
    return o


FN_OF_KIND = {0: "radius_pkt_attr_add", 1: "radius_pkt_attr_add_uint32", 2: "radius_pkt_attr_add_addr",
              3: "radius_pkt_attr_add_port", 4: "radius_pkt_attr_add_raw"}


def eval_rad_build(ctx, obs):
    p = ctx.params
    o = read_rad_build(obs, len(p["attrs"]))
    code, bufsize = p["code"], p["bufsize"]
    key = unhx(p["key"])
    req = unhx(p["req"])
    ctx.count("rad_build_cases")
    if bufsize < 20:
        ctx.cls("rad", "init", code, "buf<20", "refused" if o["init_rc"] else "accepted")
        if o["init_rc"] == 0:
            ctx.viol("oracle:radius_pkt_init:accepted-too-small-buffer", bufsize=bufsize)
        return
    if o["init_rc"] != 0 or o["init_size"] != 20:
        ctx.viol("oracle:radius_pkt_init:refused-valid", rc=o["init_rc"], code=code, mode=p["mode"])
        return
    if p["mode"] == 1:
        ident, field, req_auth = req[1], req[4:20], req[4:20]
    else:
        ident, req_auth = p["id"], None
        field = unhx(p["auth"]) if code in rr.RANDOM_AUTH_CODES else rr.ZERO16
    nonce = field
    ref = []            # (type, value)
    size = 20
    nongating_sign = None
    pw_clear = None
    pre = o["pre"]
    for i, (a, (rc, sret, oret, hlen)) in enumerate(zip(p["attrs"], o["attrs"])):
        kind, t = a["kind"], a["t"]
        d = unhx(a["data"])
        fn = FN_OF_KIND[kind]
        alt = None
        must = None
        detail = "other"
        if kind == 0 and t == 2:
            val = rr.pad_password(d) if len(d) <= 128 else None
            detail = "user-password"
            if val is not None and not any(x[0] in (2, 3) for x in ref):
                must = True
            if code != 1:
                must = None
        elif kind == 0 and t == 80:
            val = rr.ZERO16
            detail = "message-authenticator"
            must = True if not any(x[0] == 80 for x in ref) else None
        elif kind == 0:
            val = d
            detail = "rfc-length"
            must = True if (rr.rfc_len_ok(t, len(d)) and t not in (2, 3, 80)) else None
            if t == 3 and rr.rfc_len_ok(t, len(d)) and not any(x[0] == 2 for x in ref):
                must = True
        elif kind == 4:
            val = d
            detail = "raw"
            must = True if len(d) <= 253 else None
        elif kind == 1:
            val = d[:4]
            alt = d[:4][::-1]
            detail = "uint32"
            must = True if rr.rfc_len_ok(t, 4) else None
        elif kind == 2:
            if d[0] == 4:
                tt, val, detail = t, d[1:5], "ipv4"
            else:
                tt, val, detail = a["t2"], d[1:17], "ipv6"
            t = tt
            must = True if rr.rfc_len_ok(t, len(val)) else None
        else:
            val = pre[size + 2:size + 6] if rc == 0 else b"\0" * 4
            port = d[5:7] if d[0] == 4 else d[17:19]
            if rc == 0 and val != b"\0\0" + port:
                ctx.observe("radius:radius_pkt_attr_add_port:value-is-not-the-32-bit-port")
            detail = "port"
        if val is None:
            if rc == 0:
                ctx.viol("oracle:%s:accepted-oversized-password" % fn, index=i)
                return
            continue
        fits = size + 2 + len(val) <= bufsize and len(val) <= 253
        ctx.cls("rad", "add", fn, detail, "fits" if fits else "too-big", "ok" if rc == 0 else "refused",
                "must" if must else "free")
        if rc != 0:
            if must and fits:
                ctx.viol("oracle:%s:refused-valid-attribute:%s" % (fn, detail), index=i, rc=rc, type=t,
                         value_len=len(val), pkt_size=size, bufsize=bufsize)
                if detail == "user-password":
                    nongating_sign = "user-password refused"
                continue
            if hlen != size:
                ctx.viol("oracle:%s:failed-add-changed-length" % fn, index=i, expected=size, observed=hlen)
                return
            continue
        if not fits:
            ctx.viol("oracle:%s:accepted-although-too-big" % fn, index=i, pkt_size=size, bufsize=bufsize, value_len=len(val))
            return
        if sret != size + 2 + len(val) or oret != size or hlen != size + 2 + len(val):
            ctx.viol("oracle:%s:wrong-size-or-offset-returned" % fn, index=i, expected=[size + 2 + len(val), size],
                     observed=[sret, oret, hlen])
            return
        got = pre[size + 2:size + 2 + len(val)]
        if alt is not None and got == alt and got != val:
            val = alt
        if kind == 0 and a["t"] == 2 and code == 1:
            pw_clear = d
        if kind == 4 and a["t"] == 2 and "pw" in a:
            pw_clear = unhx(a["pw"])
        if a["t"] == 2 and code != 1:
            nongating_sign = "User-Password outside Access-Request"
        ref.append((t, val))
        size += 2 + len(val)
    exp_pre = rr.build(code, ident, field, ref)
    if pre[:size] != exp_pre:
        d = segdiff([("code", exp_pre[0:1]), ("id", exp_pre[1:2]), ("length", exp_pre[2:4]),
                     ("authenticator", exp_pre[4:20]), ("attributes", exp_pre[20:])], pre[:size])
        ctx.viol("oracle:radius_pkt_attr_add:wire-mismatch:%s" % d, expected=hx(exp_pre), observed=hx(pre[:size]))
        return
    has_ma = any(t == 80 for t, _ in ref)
    has_eap = any(t == 79 for t, _ in ref)
    needs_ma = (code == 12 or has_eap) and not has_ma
    two_ma = sum(1 for t, _ in ref if t == 80) > 1
    if o["chk_pre"] != 0 and not needs_ma and not two_ma:
        ctx.viol("oracle:radius_pkt_chk:rejects-built-packet", rc=o["chk_pre"], pkt=hx(exp_pre))
        return
    exp_list = [(t, v, off) for t, v, off in rr.parse(exp_pre)[4]]
    if o["list_pre"] != exp_list:
        ctx.viol("oracle:radius_pkt_attr_get_data_ptr_raw:lists-other-attributes", expected=_jl(exp_list),
                 observed=_jl(o["list_pre"]))
        return
    ctx.count("rad_packets_built_and_listed")
    # ---- sign
    if two_ma:
        return
    if p["add_ma"]:
        if has_ma:
            ctx.observe("radius:radius_pkt_sign:add_msg_authr-with-existing-attribute:%s" %
                        ("refused" if o["sign_rc"] else "accepted"))
            return
        if size + 18 > bufsize:
            ctx.cls("rad", "sign", code, "no-room-for-ma", "refused" if o["sign_rc"] else "accepted")
            if o["sign_rc"] == 0:
                ctx.viol("oracle:radius_pkt_sign:accepted-although-too-big", pkt_size=size, bufsize=bufsize)
            return
        ref.append((80, rr.ZERO16))
        size += 18
        has_ma = True
    if code == 13:
        pass    # Status-Client: no RFC semantics; judged like Status-Server (see assumptions)
    if code == 5 and has_ma and (not req or req[0] != 12):
        nongating_sign = "Message-Authenticator in Accounting-Response to Accounting-Request"
    if code in (4,) and has_ma:
        nongating_sign = "Message-Authenticator in Accounting-Request"
    if needs_ma and not has_ma:
        nongating_sign = nongating_sign or "Message-Authenticator required but absent"
    if nongating_sign:
        ctx.observe("radius:sign-verify-not-judged:%s:sign_rc=%s:verify=%s" % (
            nongating_sign, "0" if o["sign_rc"] == 0 else "err",
            ("0" if o["verify"] == 0 else "err") if o.get("recv") else "n/a"))
        ctx.cls("rad", "sign", code, "nongating", nongating_sign)
        return
    try:
        exp = rr.sign(code, ident, nonce, ref, key, req_auth=req_auth)
    except rr.RadiusError as e:
        ctx.viol("harness:radiusref:sign-failed", error=str(e))
        return
    pwcls = "nopw" if pw_clear is None else "pw%d" % ((len(pw_clear) + 15) // 16)
    ctx.cls("rad", "sign", code, "ma" if has_ma else "noma", pwcls, "add_ma" if p["add_ma"] else "found",
            "reply-to-%d" % req[0] if req else "request", "ok" if o["sign_rc"] == 0 else "refused")
    if o["sign_rc"] != 0:
        ctx.viol("oracle:radius_pkt_sign:refused-valid-packet", rc=o["sign_rc"], code=code)
        return
    got = o["post"][:size]
    if o["sign_size"] != size or got != exp:
        _, _, _, _, eattrs = rr.parse(exp)
        segs = [("header", exp[0:4]), ("authenticator", exp[4:20])]
        for t, v, off in eattrs:
            segs.append(("message-authenticator" if t == 80 else "user-password" if t == 2 else "attribute",
                         exp[off:off + 2 + len(v)]))
        d = segdiff(segs, got)
        ctx.viol("oracle:radius_pkt_sign:differs-from-rfc:%s:%s" % (d, "request" if code in REQ_CODES else "reply"),
                 code=code, expected=hx(exp), observed=hx(got), size=o["sign_size"])
        return
    ctx.count("rad_packets_signed_byte_identical")
    if o["chk_post"] != 0:
        ctx.viol("oracle:radius_pkt_chk:rejects-signed-packet", rc=o["chk_post"], pkt=hx(exp))
        return
    exp_list = [(t, v, off) for t, v, off in rr.parse(exp)[4]]
    if o["list_post"] != exp_list:
        ctx.viol("oracle:radius_pkt_attr_get_data_ptr_raw:lists-other-attributes:signed", expected=_jl(exp_list),
                 observed=_jl(o["list_post"]))
        return
    if not o["recv"]:
        ctx.viol("harness:rad_build:receiver-part-missing")
        return
    if o["r_chk"] != 0:
        ctx.viol("oracle:radius_pkt_chk:rejects-signed-packet", rc=o["r_chk"], pkt=hx(exp))
        return
    if o["calc_rc"] != 0 or bytes(o["calc"]) != exp[4:20]:
        ctx.viol("oracle:radius_pkt_authenticator_calc:differs-from-rfc", rc=o["calc_rc"], expected=hx(exp[4:20]),
                 observed=hx(o["calc"]), code=code)
        return
    if o["verify"] != 0:
        ctx.viol("oracle:radius_pkt_verify:rejects-untouched:%s" % ("request" if code in REQ_CODES else "reply"),
                 rc=o["verify"], code=code, pkt=hx(exp))
        return
    if pw_clear is not None:
        if not o["pw_present"] or o["pw_rc"] != 0 or o["pw"] != pw_clear:
            ctx.viol("oracle:radius_pkt_verify:password-not-recovered", expected=hx(pw_clear),
                     observed=hx(o.get("pw", b"")))
            return
        ctx.count("rad_passwords_recovered_in_packet")
    ctx.count("rad_packets_verified")


def _jl(lst):
    return [[t, hx(v), off] for t, v, off in lst]


def eval_rad_verify(ctx, obs):
    p = ctx.params
    r = R(obs)
    chk, ver = r.i32(), r.i32()
    accepted = chk == 0 and ver == 0
    pkt, key, req = unhx(p["pkt"]), unhx(p["key"]), unhx(p["req"])
    must, reason = rr.must_reject(pkt, key, req[4:20] if req else None)
    reason_cls = reason.split(":")[0]
    what = p["what"]
    code = p["code"]
    ctx.count("rad_verify_cases")
    ctx.cls("radverify", code, "ma" if p["has_ma"] else "noma", what, p.get("posclass", "-"),
            "must-reject:" + reason_cls if must else "uncovered", "accepted" if accepted else "rejected")
    if what == "untouched":
        if must:
            ctx.part["inconclusive"].append("reference rejects its own signed packet (%s)" % reason)
            return
        if not accepted:
            ctx.viol("oracle:radius_pkt_verify:rejects-untouched:%s" % ("request" if code in REQ_CODES else "reply"),
                     chk=chk, verify=ver, code=code)
        else:
            ctx.count("rad_untouched_accepted")
        return
    covered_code = code not in rr.RANDOM_AUTH_CODES
    if what == "corrupt" and covered_code and p["posclass"] != "code" and not must:
        ctx.part["inconclusive"].append("reference found an uncovered octet in a packet with computed authenticator")
        return
    if must:
        ctx.count("rad_%s_must_reject" % what.replace("-", "_"))
        if accepted:
            if what == "wrong-secret":
                ctx.viol("oracle:radius_pkt_verify:accepts-wrong-secret:%s" % reason_cls, code=code)
            else:
                ctx.viol("oracle:radius_pkt_verify:accepts-corrupted-octet:%s:%s" % (reason_cls, p["posclass"]),
                         code=code, pos=p["pos"], mask=p["mask"])
    else:
        ctx.count("rad_%s_not_covered_by_any_authenticator" % what.replace("-", "_"))


def eval_rad_pw(ctx, obs):
    p = ctx.params
    r = R(obs)
    e_rc, e_ret, ebuf = r.i32(), r.u64(), r.blob()
    d_rc, d_ret, dbuf = r.i32(), r.u64(), r.blob()
    pw, key, auth = unhx(p["pw"]), unhx(p["key"]), unhx(p["auth"])
    padded = rr.pad_password(pw)
    need = len(padded)
    exp = rr.hide_password(pw, key, auth)
    ctx.count("rad_pw_cases")
    blocks = need // 16
    rel = lambda s: "exact" if s == need else "short" if s < need else "roomy"
    ctx.cls("radpw", "encode", "blocks=%d" % blocks, "len%%16=%s" % ("0" if len(pw) % 16 == 0 else "x"), rel(p["esz"]),
            "ok" if e_rc == 0 else "refused")
    ctx.cls("radpw", "decode", "blocks=%d" % blocks, rel(p["dsz"]), "ok" if d_rc == 0 else "refused")
    if p["esz"] >= need:
        if e_rc != 0 or e_ret != need:
            ctx.viol("oracle:radius_pkt_attr_password_encode:refused-although-fits", rc=e_rc, ret=e_ret, need=need)
        elif ebuf[:need] != exp:
            k = next(i for i in range(blocks) if ebuf[i * 16:i * 16 + 16] != exp[i * 16:i * 16 + 16])
            ctx.viol("oracle:radius_pkt_attr_password_encode:differs-from-rfc2865-5.2:block-%s" %
                     ("1" if k == 0 else "2" if k == 1 else "3+"), expected=hx(exp), observed=hx(ebuf[:need]))
        else:
            ctx.count("rad_pw_hidden_equal_rfc")
    elif e_rc == 0:
        ctx.viol("oracle:radius_pkt_attr_password_encode:accepted-too-small-buffer", esz=p["esz"], need=need)
    if p["dsz"] >= need:
        nul = padded.find(b"\0")
        explen = nul if nul >= 0 else need
        if d_rc != 0:
            ctx.viol("oracle:radius_pkt_attr_password_decode:refused-although-fits", rc=d_rc, need=need)
        elif dbuf[:need] != padded:
            k = next(i for i in range(blocks) if dbuf[i * 16:i * 16 + 16] != padded[i * 16:i * 16 + 16])
            ctx.viol("oracle:radius_pkt_attr_password_decode:does-not-invert-hiding:block-%s" %
                     ("1" if k == 0 else "2" if k == 1 else "3+"), expected=hx(padded), observed=hx(dbuf[:need]))
        elif d_ret != explen:
            ctx.viol("oracle:radius_pkt_attr_password_decode:wrong-length", expected=explen, observed=d_ret)
        else:
            ctx.count("rad_pw_unhidden_equal_input")
    elif d_rc == 0:
        ctx.viol("oracle:radius_pkt_attr_password_decode:accepted-too-small-buffer", dsz=p["dsz"], need=need)


# ----------------------------------------------------------------------------
# runner
# ----------------------------------------------------------------------------
EVAL = {"dns_build": eval_dns_build, "dns_name": eval_dns_name, "rad_build": eval_rad_build,
        "rad_verify": eval_rad_verify, "rad_pw": eval_rad_pw}

NON_GATING_UBSAN = ("shift", "signed integer overflow", "misaligned", "alignment", "null pointer passed")


def judge(part, variant, params, obs):
    ctx = Ctx(part, variant, params)
    op = params["op"]
    part["evaluations"] += 1
    if isinstance(obs, Crash):
        key = common.crash_key(obs, op)
        rep = obs.report or ""
        if obs.kind == "ubsan" and any(k in rep for k in NON_GATING_UBSAN):
            ctx.observe(key)
            return
        if dns_case_nongating(params):
            ctx.observe("outside-quantifier(root/overlong name):" + key)
            return
        if obs.kind in ("asan", "ubsan", "signal", "hang"):
            ctx.viol(key, report=rep[-3000:])
            return
        part["inconclusive"].append("driver exited on a case: %s rc=%s" % (obs.kind, obs.returncode))
        return
    if not obs or obs[-1] != 0x0C:
        part["inconclusive"].append("driver did not consume the case (%s)" % op)
        return
    try:
        EVAL[op](ctx, obs[:-1])
    except (IndexError, struct.error, AssertionError) as e:
        part["inconclusive"].append("observation of %s unreadable: %r" % (op, e))
    if not ctx.bad and len(part["samples"]) < 2:
        part["samples"].append({"op": op, "params": _shorten(params)})


def _shorten(p):
    s = json.dumps(p)
    return p if len(s) < 1500 else {"op": p["op"], "note": "long case elided", "head": s[:600]}


def worker(job):
    variant, exe, idx, n_dns, n_name, n_rad, n_pw, n_ver, thorough, n_many, big = job
    rng = Rng(PROP, common.seed(), idx)
    part = common.new_part()
    cases = []
    mrng = Rng(PROP, common.seed(), idx, "many")
    for _ in range(n_many):
        cases.append(gen_dns_many(mrng, 10 if thorough else 1))
    if big:
        cases.append(gen_dns_max_questions(mrng))
    for _ in range(n_dns):
        cases.append(gen_dns_build(rng))
    for _ in range(n_name):
        cases.append(gen_dns_name(rng))
    for _ in range(n_rad):
        cases.append(gen_rad_build(rng))
    for _ in range(n_pw):
        cases.append(gen_rad_pw(rng))
    nv = 0
    k = 0
    while nv < n_ver:
        s = gen_rad_verify_set(rng, thorough and k % 4 == 0)
        k += 1
        cases.extend(s)
        nv += len(s)
    rng.shuffle(cases)
    res = common.run_cases(exe, [payload_of(c) for c in cases])
    if len(res) != len(cases):
        part["inconclusive"].append("driver returned %d observations for %d cases" % (len(res), len(cases)))
    for c, o in zip(cases, res):
        judge(part, variant, c, o)
    return part


RULE = (
    "Cases are drawn from splitmix64 streams (VERIF_SEED, worker index). DNS: a message is a header (random id, all flag "
    "fields) followed by 0-3 questions, 0-9 resource records in AN/NS/AR order and optionally an OPT pseudo-RR, or a "
    "'fill' sequence of 15-60 small records, or a 'many small entries' sequence (every worker, both tiers): 255-1500 "
    "(thorough: up to 9000, once 65535) minimal questions / A records with one-label owners into one section or mixed "
    "over all four, in a buffer that is roomy, exact or (4-64 KiB) too small, so that QD/AN/NS/AR counts cross 255, 256, "
    "257, 511, 512, 1024, 4096 and the header counters, info_get offsets and parse-back of every entry are compared; owner names come from the host-name grammar in classes (short, one label, "
    "a 63-octet label, exactly 253 and 252 octets, 20-127 one-octet labels, plus the invalid edges 64+-octet label, empty "
    "label, trailing dot, 254 and 255-300 octets, root); types/classes/TTLs include 0, 2^31, 2^32-1 and random values; "
    "RDATA 0-1500 octets; the heap buffer has exactly the size passed to the library and is swept around the final message "
    "size (exact, -1, +1, cut inside a record, <12, 12, roomy). Every add is judged: fits <=> accepted, returned size, "
    "octets equal to dnsref; the finished message must pass dns_msg_validate and parse back (info_get offsets, every "
    "question and record, dns_msg_rr_find for a name in different letter case) to what dnsref decodes. Names are also "
    "round-tripped through DomainNameToSequenceOfLabels / SequenceOfLabelsToDomainName and the dns_msg_* variants with "
    "buffer sizes around the need. RADIUS: packets of every code the library knows are built with radius_pkt_init / "
    "radius_pkt_reply_init and attr_add / add_uint32 / add_addr / add_port / add_raw from 0-20 attributes (RFC-valid "
    "(type,length) pairs: must be accepted when they fit; odd lengths and unknown types: consistency only), optional "
    "User-Password (0-128 octets, every 16-octet edge) and Message-Authenticator (added explicitly, pre-set with a stale "
    "value, or by radius_pkt_sign), secrets of 1-64 octets, buffers around the final size; the packet must equal "
    "radiusref octet for octet before and after radius_pkt_sign, pass radius_pkt_chk, list the same attributes, verify, and "
    "give the password back. Password hiding is also checked stand-alone against RFC 2865 5.2. Reference-signed packets are "
    "fed to radius_pkt_chk + radius_pkt_verify untouched (must be accepted), with a wrong secret and with single-octet "
    "XOR corruptions (quick: header octets, last octet and 6 random positions; thorough: additionally every octet x 3 masks "
    "for a quarter of the packets); a corrupted packet MUST be rejected exactly when RFC processing can detect it: "
    "malformed layout, a present Message-Authenticator that no longer matches, or a mismatch of the computed "
    "Request/Response Authenticator (codes 2,3,4,5,11,40-45). Octets of an Access-Request / Status-Server whose "
    "Authenticator is a nonce are covered only through a Message-Authenticator; a corruption that removes the only "
    "covering attribute or turns the code into 1/12/13 is therefore 'uncovered' and not judged. "
    "A behaviour class is (protocol, operation/entry point, name class and shape | packet code, buffer relation, "
    "Message-Authenticator/password shape, corruption position class, coverage reason, outcome)."
)

ASSUMPTIONS = [
    "DNS header ID is an opaque cookie: the library stores the caller's uint16_t without byte swapping (dns_hdr_create, "
    "dns_hdr_id_get are symmetric), so the reference places the two octets in memory order; the flag word is built with "
    "the library's dns_hdr_flags_t bit-field union from individual fields and must equal the RFC 1035 4.1.1 layout.",
    "Section counters for records are incremented by the caller (dns_hdr_an/ns/ar_inc) exactly as src/proto/dns_resolv.c "
    "does; dns_msg_rr_add/optrr_add return the new total message size in *rr_size.",
    "Owner names outside the property's quantifier (root = empty string, names longer than 253 octets whose labels are all "
    "valid) are executed and recorded as observations but not judged; a message containing one is not parsed back.",
    "A name with a trailing dot may be refused; if it is accepted it must be encoded as the same absolute name.",
    "Labels of 0 or more than 63 octets must be refused (no RFC 1035 encoding exists).",
    "dns_msg_rr_add is not given TYPE=OPT (41): dns_msg_rr_get_data returns the TTL of type 41 in memory order, which is "
    "compared as raw octets for OPT records added with dns_msg_optrr_add.",
    "dns_msg_sequence_of_labels2name is required to succeed only with name_len+2 octets of output buffer (it refuses "
    "name_len+1 although that suffices); the property states no buffer contract for the text form.",
    "RADIUS: User-Password only in Access-Request; passwords contain no NUL octets (RFC 2865 5.2 pads with NULs, so a NUL "
    "is not recoverable by design); stand-alone hiding is also run on arbitrary octets.",
    "Message-Authenticator in Accounting-Request and in an Accounting-Response answering an Accounting-Request is not "
    "defined by RFC 2866/2869/5997; such packets are executed, recorded and not judged. Code 13 (Status-Client) has no RFC "
    "semantics and is judged like Status-Server (nonce authenticator).",
    "Buffers passed to the RADIUS builders are at most 4096 octets (RADIUS_PKT_MAX_SIZE); the add functions do not check "
    "that limit themselves.",
    "radius_pkt_verify is called after radius_pkt_chk as its comment demands; 'rejected' = either returns non-zero.",
    "UBSan reports of kinds that cannot change results (shift, signed overflow, alignment, nonnull memcpy with size 0) are "
    "recorded as observations; heap-buffer-overflow and every other report is a violation.",
]


def variants(tier):
    v = [("asu-gcc", dict(name="c15_asu_gcc", sources=[DRIVER], san="asu", cc="gcc"))]
    if tier == "thorough":
        v.append(("asu-clang", dict(name="c15_asu_clang", sources=[DRIVER], san="asu", cc="clang")))
    return v


def run(tier):
    report = common.Report(PROP, tier, "exploration")
    report.rule = RULE
    report.assumptions = ASSUMPTIONS
    for name, mod in (("dnsref", dnsref), ("radiusref", rr)):
        fails = mod.selftest()
        if fails:
            report.inconclusive.append("oracle %s failed its published vectors: %s" % (name, fails[:3]))
            return report.finish()
    exes = common.try_builds(report, variants(tier))
    if "asu-gcc" not in exes:
        report.inconclusive.append("driver does not build: %s" % report.builds)
        return report.finish()
    scale = 10 if tier == "thorough" else 1
    per = dict(n_dns=420, n_name=220, n_rad=260, n_pw=120, n_ver=420)
    jobs = []
    idx = 0
    nworkers = 16
    for vname, exe in sorted(exes.items()):
        share = scale if vname == "asu-gcc" else max(1, scale // 3)
        for w in range(nworkers):
            jobs.append((vname, exe, idx, per["n_dns"] * share, per["n_name"] * share, per["n_rad"] * share,
                         per["n_pw"] * share, per["n_ver"] * share, tier == "thorough",
                         (1 if tier == "quick" else 4 * share // 3 + 1),
                         tier == "thorough" and vname == "asu-gcc" and w == 0))
            idx += 1
    for part in common.parallel(worker, jobs):
        report.merge(part)
    need = ("dns_messages_byte_identical", "dns_records_parsed_back", "dns_rr_find_checked", "dns_names_round_tripped",
            "rad_packets_built_and_listed", "rad_pw_hidden_equal_rfc", "rad_pw_unhidden_equal_input",
            "rad_untouched_accepted", "rad_corrupt_must_reject", "rad_wrong_secret_must_reject",
            "dns_messages_with_section_count_ge_256")
    for k in need:
        if report.extra.get(k, 0) == 0:
            report.inconclusive.append("monitor '%s' observed nothing" % k)
    return report.finish()


def replay(path):
    with open(path) as fh:
        rec = json.load(fh)
    wit = rec["witness"]
    params = wit["params"]
    if "many" in params and "ops" not in params:
        params["ops"] = many_ops(params["many"])
    vmap = dict(variants("thorough"))
    vname = wit.get("variant", "asu-gcc")
    exe = common.build(**vmap[vname])
    res = common.run_cases(exe, [payload_of(params)])
    part = common.new_part()
    judge(part, vname, params, res[0])
    print("replay %s key=%s variant=%s" % (PROP, rec["key"], vname))
    print("params:", json.dumps(params)[:2000])
    for k in ("expected", "observed"):
        if k in wit:
            print("recorded %s: %s" % (k, json.dumps(wit[k])[:1500]))
    if isinstance(res[0], Crash):
        print(res[0].report[-2500:])
    keys = [k for k, _ in part["violations"]]
    for k, w in part["violations"]:
        print("VIOLATION reproduced key=%s" % k)
        for f in ("expected", "observed"):
            if f in w:
                print("  %s: %s" % (f, json.dumps(w[f])[:1500]))
    if rec["key"] in keys:
        return 1
    print("not reproduced (observed keys: %s)" % keys)
    return 0 if not keys else 1
