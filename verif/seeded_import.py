#!/usr/bin/env python3
"""Import a sub-agent's property-breaking change into /verif/seeded/<id>/ after re-verifying it.

  python3 -m verif.seeded_import <PROP> <worktree> <A|B> <seeded-id> "<what it needs to manifest>"

Re-verification (in the agent's scratch worktree, never in /repo): the patch applies to clean HEAD, the
library sources named in the README compile with it, the demonstration fails with the change and passes
without it.  The pinned test suite run is the agent's (its report is quoted in meta.json); pass --ctest to
re-run it here as well."""
import argparse
import json
import os
import re
import shutil
import subprocess
import sys

ROOT = os.path.dirname(os.path.dirname(os.path.abspath(__file__)))
DEFS = ("-D_GNU_SOURCE -DLINUX -D__USE_GNU=1 -DHAVE_PIPE2 -DHAVE_ACCEPT4 -DHAVE_MEMRCHR -DHAVE_MEMMEM -DHAVE_STRNCASECMP "
        "-DHAVE_REALLOCARRAY -DHAVE_EXPLICIT_BZERO -DHAVE_PTHREAD_SETNAME_NP -DHAVE_SOCK_CLOEXEC -DHAVE_SOCK_NONBLOCK").split()


def sh(cmd, cwd, timeout=900):
    p = subprocess.run(cmd, cwd=cwd, stdout=subprocess.PIPE, stderr=subprocess.STDOUT, text=True, timeout=timeout)
    return p.returncode, p.stdout


def build_and_run(wt, mdir, readme, tag):
    bs = os.path.join(mdir, "build.sh")
    if os.path.exists(bs):
        readme = readme + "\n" + open(bs).read()
    srcs = sorted(set(re.findall(r"(src/[\w/]+\.c)", readme)))
    patch_txt = open(os.path.join(mdir, "patch.diff")).read()
    if "threadpool_task" in readme or "threadpool_task" in patch_txt:
        srcs = sorted(set(srcs) | {"src/threadpool/threadpool.c", "src/threadpool/threadpool_msg_sys.c", "src/threadpool/threadpool_task.c",
                                    "src/net/socket.c", "src/net/socket_address.c", "src/net/socket_options.c", "src/net/utils.c", "src/utils/sys.c"})
    extra = []
    if "-DLIBLCB_VERIF" in readme:
        extra.append("-DLIBLCB_VERIF")
    for fl in ("-fsanitize=thread", "-fsanitize=address,undefined", "-fsanitize=address", "-msse4.1", "-msha", "-mssse3", "-O0", "-O2"):
        if fl in readme:
            extra.append(fl)
            if fl.startswith("-fsanitize"):
                break
    extra += sorted(set(re.findall(r"-Wl,--wrap=\w+", readme)))
    if "-ldl" in readme:
        extra.append("-ldl")
    demo_src = [f for f in os.listdir(mdir) if f.startswith("demo") and f.endswith(".c")]
    exe = os.path.join(wt, "demo_%s" % tag)
    cmd = ["gcc", "-O1", "-g", "-w", "-I" + os.path.join(wt, "include")] + DEFS + extra + \
          [os.path.join(mdir, f) for f in demo_src] + [os.path.join(wt, s) for s in srcs] + ["-lpthread", "-o", exe]
    rc, out = sh(cmd, wt)
    if rc != 0 and srcs:
        # sources named in the README only as "also compiles": retry header-only
        cmd = [c for c in cmd if not any(c.endswith(x) for x in srcs)]
        rc, out = sh(cmd, wt)
    if rc != 0:
        return None, "build failed: " + out[-800:], " ".join(cmd)
    try:
        rc, out = sh([exe], wt, timeout=1200)
    except subprocess.TimeoutExpired:
        rc, out = 124, "demo timed out"
    os.unlink(exe)
    return rc, out[-600:], " ".join(cmd)


def main():
    ap = argparse.ArgumentParser()
    ap.add_argument("prop")
    ap.add_argument("wt")
    ap.add_argument("which")
    ap.add_argument("sid")
    ap.add_argument("needs")
    ap.add_argument("--ctest", action="store_true")
    a = ap.parse_args()
    mdir = os.path.join(a.wt, "mutants", a.which)
    readme = open(os.path.join(mdir, "README.txt")).read()
    patch = os.path.join(mdir, "patch.diff")
    rc, out = sh(["git", "status", "--porcelain", "--untracked-files=no"], a.wt)
    if out.strip():
        sh(["git", "checkout", "--", "."], a.wt)
    rc0, out0, cmd = build_and_run(a.wt, mdir, readme, "orig")
    rc, out = sh(["git", "apply", patch], a.wt)
    if rc != 0:
        print("patch does not apply:", out)
        return 1
    ct = None
    try:
        rc1, out1, cmd = build_and_run(a.wt, mdir, readme, "mut")
        if a.ctest:
            b = os.path.join(a.wt, "_build_lead")
            sh(["cmake", "-G", "Ninja", "-B", b, "-S", a.wt, "-DENABLE_LIBLCB_TESTS=ON", "-DCMAKE_BUILD_TYPE=RelWithDebInfo", "-DCMAKE_C_FLAGS=-Wno-error"], a.wt)
            rcb, outb = sh(["cmake", "--build", b], a.wt)
            rct, outt = sh(["ctest", "--test-dir", b, "-j8", "--timeout", "900"], a.wt, timeout=2400)
            ct = {"build_rc": rcb, "ctest_rc": rct, "tail": outt[-300:]}
            shutil.rmtree(b, ignore_errors=True)
    finally:
        sh(["git", "checkout", "--", "."], a.wt)
    print("original: rc=%s  %s" % (rc0, (out0 or "").strip().splitlines()[-1:] ))
    print("mutated : rc=%s  %s" % (rc1, (out1 or "").strip().splitlines()[-1:]))
    ok = (rc0 == 0 and rc1 not in (0, None))
    print("CONFIRMED" if ok else "NOT CONFIRMED")
    if not ok:
        return 1
    d = os.path.join(ROOT, "seeded", a.sid)
    os.makedirs(d, exist_ok=True)
    for f in os.listdir(mdir):
        shutil.copy(os.path.join(mdir, f), os.path.join(d, f))
    meta = {"id": a.sid, "property": a.prop, "needs_to_manifest": a.needs,
            "source": "independent sub-agent given only the property text and a scratch worktree",
            "verified_by_lead": {"demo_build_cmd": cmd, "demo_exit_original": rc0, "demo_exit_mutated": rc1,
                                 "demo_output_mutated_tail": out1[-300:], "ctest_rerun": ct,
                                 "test_suite": "agent ran the pinned ctest suite with the change applied (see README.txt)" if not ct else "re-run by lead"}}
    json.dump(meta, open(os.path.join(d, "meta.json"), "w"), indent=1)
    return 0


if __name__ == "__main__":
    sys.exit(main())
