#!/usr/bin/env python3
"""Run registered checks against a seeded change.

  python3 -m verif.seeded_eval <seeded-id> [--tier quick] [--checks C05,C10]

Applies /verif/seeded/<id>/patch.diff to /repo (git apply), runs the checks named in
meta.json ("property" plus optional "also"), prints which raise a VIOLATION, undoes the
patch (git checkout -- .) in every case and records the outcome in meta.json["detected_by"].
Never leaves /repo modified."""
import argparse
import json
import os
import subprocess
import sys

ROOT = os.path.dirname(os.path.dirname(os.path.abspath(__file__)))
REPO = "/repo"


def scratch_run(a, d, meta, meta_p, checks):
    import shutil
    import tempfile
    tmp = tempfile.mkdtemp(prefix="seeded_%s_" % a.sid.replace("/", "_"), dir="/tmp")
    try:
        for sub in ("include", "src"):
            shutil.copytree(os.path.join(REPO, sub), os.path.join(tmp, sub))
        subprocess.check_call(["patch", "-s", "-p1", "-d", tmp, "-i", os.path.join(d, "patch.diff")])
        out = {}
        for c in checks:
            env = dict(os.environ, VERIF_SEED=a.seed, VERIF_REPO=tmp, VERIF_EVIDENCE_DIR=os.path.join(tmp, "evidence"), VERIF_REPLAY_DIR=os.path.join(tmp, "replay"))
            p = subprocess.run([os.path.join(ROOT, "check"), c, "--tier", a.tier], stdout=subprocess.PIPE, stderr=subprocess.STDOUT,
                               text=True, env=env, cwd=ROOT)
            keys = [l.split("key=")[1].split(" ")[0] for l in p.stdout.splitlines() if l.startswith("VIOLATION") and "key=" in l]
            out[c] = {"exit": p.returncode, "keys": keys[:12]}
            print(c, "exit", p.returncode, keys[:6])
            if p.returncode == 2:
                print(p.stdout[-1500:])
    finally:
        shutil.rmtree(tmp, ignore_errors=True)
    meta.setdefault("detected_by", {})[a.tier + ":seed" + a.seed + ":scratch-copy"] = out
    json.dump(meta, open(meta_p, "w"), indent=1)
    return 0


def main():
    ap = argparse.ArgumentParser()
    ap.add_argument("sid")
    ap.add_argument("--tier", default="quick")
    ap.add_argument("--checks", default=None)
    ap.add_argument("--seed", default="1")
    ap.add_argument("--scratch", action="store_true", help="apply to a scratch copy (VERIF_REPO) instead of /repo itself")
    a = ap.parse_args()
    d = os.path.join(ROOT, "seeded", a.sid)
    meta_p = os.path.join(d, "meta.json")
    meta = json.load(open(meta_p))
    checks = a.checks.split(",") if a.checks else [meta["property"]] + meta.get("also", [])
    if a.scratch:
        return scratch_run(a, d, meta, meta_p, checks)
    st = subprocess.run(["git", "-C", REPO, "status", "--porcelain", "--untracked-files=no"], stdout=subprocess.PIPE, text=True).stdout
    if st.strip():
        print("refusing: /repo has uncommitted changes to tracked files")
        return 2
    subprocess.check_call(["git", "-C", REPO, "apply", os.path.join(d, "patch.diff")])
    out = {}
    try:
        for c in checks:
            env = dict(os.environ, VERIF_SEED=a.seed)
            p = subprocess.run([os.path.join(ROOT, "check"), c, "--tier", a.tier], stdout=subprocess.PIPE, stderr=subprocess.STDOUT,
                               text=True, env=env, cwd=ROOT)
            keys = [l.split("key=")[1].split(" ")[0] for l in p.stdout.splitlines() if l.startswith("VIOLATION") and "key=" in l]
            out[c] = {"exit": p.returncode, "keys": keys[:12]}
            print(c, "exit", p.returncode, keys[:6])
    finally:
        subprocess.check_call(["git", "-C", REPO, "checkout", "--", "."])
    meta.setdefault("detected_by", {})[a.tier + ":seed" + a.seed] = out
    json.dump(meta, open(meta_p, "w"), indent=1)
    return 0


if __name__ == "__main__":
    sys.exit(main())
