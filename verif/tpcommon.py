"""Shared helpers for the thread-pool harness checks (C05, C06, C10, C11, C16):
one scenario per process, event-log decoding, sanitizer report triage."""
import os
import re
import struct
import subprocess

from . import common

EV = struct.Struct("<QIHHQQq")   # ts, tid, kind, aux, a, b, c

TP_SOURCES = ["src/threadpool/threadpool.c", "src/threadpool/threadpool_msg_sys.c"]


class Run:
    def __init__(self, rc, obs, err, wall_timeout=False):
        self.rc = rc
        self.obs = obs          # bytes of the single observation or None
        self.err = err          # stderr text
        self.wall_timeout = wall_timeout


def run_scenario(exe, payload, env_extra=None, wall_timeout=300):
    env = common.run_env(env_extra)
    data = common.pack_case(payload)
    try:
        p = subprocess.run([exe], input=data, stdout=subprocess.PIPE, stderr=subprocess.PIPE,
                           env=env, timeout=wall_timeout)
        rc, out, err = p.returncode, p.stdout, p.stderr
        wt = False
    except subprocess.TimeoutExpired as e:
        rc, out, err, wt = 97, e.stdout or b"", e.stderr or b"", True
    obs = common._parse_obs(out)
    return Run(rc, obs[0] if obs else None, err.decode("utf-8", "replace"), wt)


def decode_events(r):
    """r: common.R positioned at the event dump; returns list of per-record tuples
    (ts, tid, kind, aux, a, b, c) in dump order (per-thread order preserved)."""
    n = r.u32()
    raw = r.b[r.o:r.o + n * EV.size]
    r.o += n * EV.size
    return [t for t in EV.iter_unpack(raw)]


def decode_points(r):
    n = r.u32()
    out = []
    for _ in range(n):
        out.append((r.u64(), r.u64()))
    return out


def by_thread(events):
    """dict tid -> list of (seq, event) in that thread's own order."""
    d = {}
    for e in events:
        d.setdefault(e[1], []).append(e)
    return d


# ---------------------------------------------------------------------------
# Sanitizer report parsing
# ---------------------------------------------------------------------------
_tsan_block = re.compile(r"WARNING: ThreadSanitizer: (.*?)\n(.*?)(?=\n==================|\Z)", re.S)
_frame = re.compile(r"#(\d+) (\S+) (\S+?):(\d+)(?::\d+)?(?: \(|$|\s)")

BENIGN_FIELDS = [
    r"->state\b", r"\.state\b", r"->shutdown\b", r"->tick_cnt\b", r"->rr_idx\b", r"->threads_cnt\b",
]


def _src_line(path, line):
    try:
        with open(path, "r", errors="replace") as fh:
            for i, l in enumerate(fh, 1):
                if i == line:
                    return l
    except OSError:
        pass
    return ""


def parse_tsan(text):
    """Return list of dicts: kind ('data race', 'thread leak', ...), accesses: list of
    (description line, [frames (fn, file, line)]) for each stack in the report."""
    reports = []
    for m in _tsan_block.finditer(text):
        kind = m.group(1).strip()
        kind = re.sub(r"\s*\(pid=\d+\)", "", kind)
        body = m.group(2)
        stacks = []
        cur = None
        for line in body.splitlines():
            ls = line.strip()
            if not ls:
                cur = None
                continue
            fm = _frame.match(ls)
            if fm and cur is not None:
                cur[1].append((fm.group(2), fm.group(3), int(fm.group(4))))
            elif not ls.startswith("#"):
                cur = [ls, []]
                stacks.append(cur)
        reports.append({"kind": kind, "stacks": stacks, "text": m.group(0)[:5000]})
    return reports


def _first_repo_frame(frames):
    for fn, f, ln in frames:
        if common.REPO in f:
            return fn, f, ln
    return None


def tsan_triage(report):
    """Returns (ignore: bool, key: str).  A data race is ignored only if BOTH racing accesses
    are plain reads/writes whose source line (in the current tree) touches one of the
    deliberately unsynchronised volatile flags."""
    kind = report["kind"]
    if kind.startswith("data race"):
        acc = [s for s in report["stacks"] if re.match(r"(Write|Read|Previous write|Previous read|Atomic|Previous atomic)", s[0], re.I)]
        acc = acc[:2]
        fns = []
        benign = len(acc) == 2
        unknown_reads = 0
        for desc, frames in acc:
            if not frames:
                # "[failed to restore the stack]": the access itself is at the same address and size.
                # A *read* cannot be free()/close(); it is a plain load of the same field the other side names.
                if re.match(r"(Previous )?read of size", desc, re.I):
                    unknown_reads += 1
                    fns.append("?")
                    continue
            fr = _first_repo_frame(frames)
            top = frames[0] if frames else None
            if top and top[0] in ("free", "close", "munmap", "operator delete", "realloc"):
                benign = False
            if fr is None:
                benign = False
                fns.append(top[0] if top else "?")
                continue
            fns.append(fr[0])
            src = _src_line(fr[1], fr[2])
            if not any(re.search(p, src) for p in BENIGN_FIELDS):
                benign = False
            # an access reported inside libc on behalf of the repo frame (memset/free) is not a plain load/store
            if top and common.REPO not in top[1]:
                benign = False
        if unknown_reads == 2:
            benign = False
        def _responsible(frames):
            for fn, f, ln in frames:
                if "libsanitizer" in f or f.startswith("../"):
                    continue
                return f
            return ""
        any_repo = any(common.REPO in _responsible(frames) for _d, frames in acc)
        if not any_repo:
            return False, "harness:race:" + "|".join(sorted(fns))
        key = "tsan:race:" + "|".join(sorted(fns))
        return benign, key
    if kind.startswith("thread leak"):
        return False, "tsan:thread-leak"
    k = re.sub(r"[^a-z0-9]+", "-", kind.lower()).strip("-")
    fn = ""
    for desc, frames in report["stacks"]:
        fr = _first_repo_frame(frames)
        if fr:
            fn = fr[0]
            break
    return False, "tsan:%s:%s" % (k, fn)


def asan_key(err, entry=""):
    c = common.Crash(common.classify_crash(None, err), err, None)
    return common.crash_key(c, entry)


def lsan_repo_leaks(err):
    """Leak blocks whose allocation stack passes through a /repo frame (library-owned memory)."""
    if "LeakSanitizer" not in err:
        return []
    out = []
    for blk in re.split(r"\n(?=(?:Direct|Indirect) leak of)", err):
        if not re.match(r"(Direct|Indirect) leak of", blk):
            continue
        m = re.search(r"in (\S+) (%s/\S+?):\d+" % re.escape(common.REPO), blk)
        if m:
            out.append((m.group(1), blk[:1500]))
    return out


def triage_into(part, err, wit, san):
    """Route sanitizer output of a finished (non-crashed) run into violations/observations."""
    if san == "tsan":
        for rep in parse_tsan(err):
            ign, key = tsan_triage(rep)
            if ign:
                part["observations"]["tsan-benign-flag-race"] = part["observations"].get("tsan-benign-flag-race", 0) + 1
            elif key.startswith("harness:"):
                part["inconclusive"].append("harness-side race reported by TSan: %s" % key)
            else:
                part["violations"].append((key, dict(wit, report=rep["text"])))
    else:
        for fn, blk in lsan_repo_leaks(err):
            part["violations"].append(("lsan:leak:%s" % fn, dict(wit, report=blk)))
