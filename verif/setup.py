#!/usr/bin/env python3
"""setup_cmd: validates the reference oracles against published vectors and checks the toolchain."""
import subprocess
import sys


def main():
    ok = True
    for tool in ("gcc", "clang"):
        p = subprocess.run([tool, "--version"], stdout=subprocess.PIPE, stderr=subprocess.STDOUT)
        if p.returncode != 0:
            print("setup: missing", tool)
            ok = False
    try:
        from verif.oracles import selftest
        ok = selftest.main() and ok
    except ImportError:
        pass
    print("setup:", "ok" if ok else "FAILED")
    return 0 if ok else 1


if __name__ == "__main__":
    sys.exit(main())
